// instrument rewrites a scratch copy of package corebgp (in place) so that
// every synchronisation construct goes through package simrt; see DESIGN.md
// section 2.2 for the rules. It refuses loudly (exit 2) on anything it cannot
// rewrite soundly. Usage: instrument <dir> [<stats.json>]
package main

import (
	"bytes"
	"encoding/json"
	"fmt"
	"go/ast"
	"go/build"
	"go/format"
	"go/importer"
	"go/parser"
	"go/token"
	"go/types"
	"os"
	"path/filepath"
	"strconv"
	"strings"
)

type rw struct {
	netRewritten   bool
	sharedLoopVars bool // the package's go directive is < 1.22
	timeRewritten  bool
	fset           *token.FileSet
	info           *types.Info
	file           string
	n              int
	sites          map[string]int
	used           bool
}

func main() {
	dir := os.Args[1]
	if err := os.Chdir(dir); err != nil {
		die(err)
	}
	bp, err := build.Default.ImportDir(".", 0)
	if err != nil {
		die(err)
	}
	fset := token.NewFileSet()
	var files []*ast.File
	for _, n := range bp.GoFiles {
		f, err := parser.ParseFile(fset, n, nil, parser.SkipObjectResolution)
		if err != nil {
			die(err)
		}
		files = append(files, f)
	}
	info := &types.Info{
		Types:      map[ast.Expr]types.TypeAndValue{},
		Selections: map[*ast.SelectorExpr]*types.Selection{},
		Uses:       map[*ast.Ident]types.Object{},
	}
	conf := types.Config{Importer: importer.ForCompiler(fset, "source", nil)}
	if _, err := conf.Check(bp.ImportPath, fset, files, info); err != nil {
		die(fmt.Errorf("typecheck: %w", err))
	}
	shared := goDirectiveBefore122("go.mod")
	keep := map[string]bool{"go.mod": true, "go.sum": true}
	total := map[string]int{}
	for i, f := range files {
		name := bp.GoFiles[i]
		keep[name] = true
		r := &rw{fset: fset, info: info, file: name, sites: total, sharedLoopVars: shared}
		r.fileDecls(f)
		if r.used {
			addImport(f, "simrt")
			f.Decls = append(f.Decls, dummyUse("simrt", "Yield"))
		}
		for _, imp := range f.Imports {
			p, _ := strconv.Unquote(imp.Path.Value)
			if p == "sync" {
				f.Decls = append(f.Decls, dummyUse("sync", "NewCond"))
			}
			if p == "time" && r.timeRewritten {
				f.Decls = append(f.Decls, dummyUse("time", "Now"))
			}
			if p == "net" && r.netRewritten {
				f.Decls = append(f.Decls, dummyUse("net", "JoinHostPort"))
			}
		}
		var buf bytes.Buffer
		if err := format.Node(&buf, fset, f); err != nil {
			die(fmt.Errorf("%s: print: %w", name, err))
		}
		if err := os.WriteFile(name, buf.Bytes(), 0o644); err != nil {
			die(err)
		}
	}
	// drop every other .go file (tests, ignored, other platforms)
	ents, _ := os.ReadDir(".")
	for _, e := range ents {
		if filepath.Ext(e.Name()) == ".go" && !keep[e.Name()] {
			os.Remove(e.Name())
		}
	}
	if len(os.Args) > 2 {
		js, _ := json.Marshal(total)
		if err := os.WriteFile(os.Args[2], js, 0o644); err != nil {
			die(err)
		}
	}
	fmt.Printf("instrumented_sites %v\n", total)
}

// goDirectiveBefore122 reports whether the module's go directive selects the
// pre-1.22 loop-variable semantics (one variable per loop).
func goDirectiveBefore122(gomod string) bool {
	b, err := os.ReadFile(gomod)
	if err != nil {
		return false
	}
	for _, line := range strings.Split(string(b), "\n") {
		f := strings.Fields(line)
		if len(f) >= 2 && f[0] == "go" {
			var maj, min int
			fmt.Sscanf(f[1], "%d.%d", &maj, &min)
			return maj == 1 && min < 22
		}
	}
	return true
}

func die(err error) {
	fmt.Fprintln(os.Stderr, "instrument:", err)
	os.Exit(2)
}

func addImport(f *ast.File, path string) {
	spec := &ast.ImportSpec{Path: &ast.BasicLit{Kind: token.STRING, Value: strconv.Quote(path)}}
	d := &ast.GenDecl{Tok: token.IMPORT, Specs: []ast.Spec{spec}}
	f.Decls = append([]ast.Decl{d}, f.Decls...)
	f.Imports = append(f.Imports, spec)
}

func dummyUse(pkg, name string) ast.Decl {
	return &ast.GenDecl{Tok: token.VAR, Specs: []ast.Spec{&ast.ValueSpec{
		Names: []*ast.Ident{ast.NewIdent("_")}, Values: []ast.Expr{sel(pkg, name)}}}}
}

func sel(pkg, name string) ast.Expr {
	return &ast.SelectorExpr{X: ast.NewIdent(pkg), Sel: ast.NewIdent(name)}
}

func call(fun ast.Expr, args ...ast.Expr) *ast.CallExpr {
	return &ast.CallExpr{Fun: fun, Args: args}
}

func strLit(s string) ast.Expr { return &ast.BasicLit{Kind: token.STRING, Value: strconv.Quote(s)} }

func (r *rw) site(kind string, pos token.Pos) ast.Expr {
	r.used = true
	r.sites[kind]++
	p := r.fset.Position(pos)
	return strLit(fmt.Sprintf("%s:%d:%s", filepath.Base(p.Filename), p.Line, kind))
}

func (r *rw) fresh() string {
	r.n++
	return fmt.Sprintf("_sim%d", r.n)
}

func (r *rw) fileDecls(f *ast.File) {
	for _, d := range f.Decls {
		switch d := d.(type) {
		case *ast.FuncDecl:
			r.typesIn(d.Type)
			if d.Recv != nil {
				r.fieldList(d.Recv)
			}
			if d.Body != nil {
				d.Body.List = r.stmts(d.Body.List)
			}
		case *ast.GenDecl:
			for _, s := range d.Specs {
				switch s := s.(type) {
				case *ast.TypeSpec:
					s.Type = r.expr(s.Type)
				case *ast.ValueSpec:
					if s.Type != nil {
						s.Type = r.expr(s.Type)
					}
					for i := range s.Values {
						s.Values[i] = r.expr(s.Values[i])
					}
				}
			}
		}
	}
}

func (r *rw) typesIn(ft *ast.FuncType) {
	if ft.Params != nil {
		r.fieldList(ft.Params)
	}
	if ft.Results != nil {
		r.fieldList(ft.Results)
	}
}

func (r *rw) fieldList(fl *ast.FieldList) {
	for _, f := range fl.List {
		f.Type = r.expr(f.Type)
	}
}

// isSyncType reports whether e is sync.Mutex / sync.Once / sync.WaitGroup / sync.RWMutex.
func (r *rw) isSyncType(e *ast.SelectorExpr) bool {
	id, ok := e.X.(*ast.Ident)
	if !ok {
		return false
	}
	pn, ok := r.info.Uses[id].(*types.PkgName)
	if !ok || pn.Imported().Path() != "sync" {
		return false
	}
	switch e.Sel.Name {
	case "Mutex", "Once", "WaitGroup", "RWMutex", "Cond", "NewCond":
		return true
	}
	return false
}

func (r *rw) isBuiltin(e ast.Expr, name string) bool {
	id, ok := e.(*ast.Ident)
	if !ok || id.Name != name {
		return false
	}
	_, ok = r.info.Uses[id].(*types.Builtin)
	return ok
}

// expr rewrites an expression tree in place and returns the (possibly new) root.
func (r *rw) expr(e ast.Expr) ast.Expr {
	if e == nil {
		return nil
	}
	switch x := e.(type) {
	case *ast.SelectorExpr:
		if r.isSyncType(x) {
			r.used = true
			r.sites["synctype"]++
			return sel("simrt", x.Sel.Name)
		}
		if id, ok := x.X.(*ast.Ident); ok {
			if pn, ok := r.info.Uses[id].(*types.PkgName); ok && pn.Imported().Path() == "time" {
				switch x.Sel.Name {
				case "Timer", "NewTimer", "After":
					// time.Timer (type), time.NewTimer, time.After -> simrt equivalents
					r.used = true
					r.sites["timertype"]++
					r.timeRewritten = true
					return sel("simrt", x.Sel.Name)
				}
			}
		}
		x.X = r.expr(x.X)
		return x
	case *ast.UnaryExpr:
		if x.Op == token.ARROW {
			return call(sel("simrt", "RecvExpr"), r.site("recv", x.Pos()), r.expr(x.X))
		}
		x.X = r.expr(x.X)
		return x
	case *ast.CallExpr:
		if se, ok := x.Fun.(*ast.SelectorExpr); ok {
			if s := r.info.Selections[se]; s != nil && s.Obj().Name() == "Dial" &&
				(s.Recv().String() == "*net.Dialer" || s.Recv().String() == "net.Dialer") {
				args := []ast.Expr{r.site("dial", x.Pos()), r.expr(se.X)}
				if s.Recv().String() == "net.Dialer" {
					args[1] = &ast.UnaryExpr{Op: token.AND, X: args[1]}
				}
				for _, a := range x.Args {
					args = append(args, r.expr(a))
				}
				return &ast.CallExpr{Fun: sel("simrt", "DialerDial"), Args: args}
			}
			if id, ok := se.X.(*ast.Ident); ok {
				if pn, ok := r.info.Uses[id].(*types.PkgName); ok && pn.Imported().Path() == "net" && (se.Sel.Name == "Dial" || se.Sel.Name == "DialTimeout") {
					args := []ast.Expr{r.site("dial", x.Pos())}
					for _, a := range x.Args {
						args = append(args, r.expr(a))
					}
					r.netRewritten = true
					return &ast.CallExpr{Fun: sel("simrt", se.Sel.Name), Args: args}
				}
			}
			if s := r.info.Selections[se]; s != nil && s.Obj().Name() == "DialContext" &&
				s.Recv().String() == "*net.Dialer" {
				args := []ast.Expr{r.site("dial", x.Pos()), r.expr(se.X)}
				for _, a := range x.Args {
					args = append(args, r.expr(a))
				}
				return &ast.CallExpr{Fun: sel("simrt", "DialContext"), Args: args, Ellipsis: x.Ellipsis}
			}
		}
		durArg := -1
		if se, ok := x.Fun.(*ast.SelectorExpr); ok {
			if id, ok := se.X.(*ast.Ident); ok {
				if pn, ok := r.info.Uses[id].(*types.PkgName); ok && pn.Imported().Path() == "time" {
					switch se.Sel.Name {
					case "NewTimer", "After", "NewTicker", "Tick":
						durArg = 0
					case "Sleep":
						args := []ast.Expr{r.site("sleep", x.Pos())}
						for _, a := range x.Args {
							args = append(args, r.expr(a))
						}
						return &ast.CallExpr{Fun: sel("simrt", "Sleep"), Args: args}
					case "AfterFunc":
						args := []ast.Expr{r.site("afterfunc", x.Pos())}
						for _, a := range x.Args {
							args = append(args, r.expr(a))
						}
						r.timeRewritten = true
						return &ast.CallExpr{Fun: sel("simrt", "AfterFunc"), Args: args}
					}
				}
				if pn, ok := r.info.Uses[id].(*types.PkgName); ok && pn.Imported().Path() == "sync" {
					switch se.Sel.Name {
					case "OnceFunc", "OnceValue", "OnceValues":
						die(fmt.Errorf("%s: sync.%s is not supported by the instrumenter", r.fset.Position(x.Pos()), se.Sel.Name))
					}
				}
			}
			if s := r.info.Selections[se]; s != nil && s.Obj().Name() == "Reset" {
				if rt := s.Recv().String(); rt == "*time.Timer" || rt == "*time.Ticker" {
					durArg = 0
				}
			}
		}
		callPos := x.Pos()
		x.Fun = r.expr(x.Fun)
		for i := range x.Args {
			x.Args[i] = r.expr(x.Args[i])
		}
		if durArg >= 0 && len(x.Args) > durArg {
			x.Args[durArg] = call(sel("simrt", "D"), r.site("timer", callPos), x.Args[durArg])
		}
		return x
	case *ast.FuncLit:
		r.typesIn(x.Type)
		x.Body.List = r.stmts(x.Body.List)
		return x
	case *ast.CompositeLit:
		x.Type = r.expr(x.Type)
		for i := range x.Elts {
			x.Elts[i] = r.expr(x.Elts[i])
		}
		return x
	case *ast.KeyValueExpr:
		x.Key = r.expr(x.Key)
		x.Value = r.expr(x.Value)
		return x
	case *ast.ParenExpr:
		x.X = r.expr(x.X)
		return x
	case *ast.StarExpr:
		x.X = r.expr(x.X)
		return x
	case *ast.BinaryExpr:
		x.X = r.expr(x.X)
		x.Y = r.expr(x.Y)
		return x
	case *ast.IndexExpr:
		x.X = r.expr(x.X)
		x.Index = r.expr(x.Index)
		return x
	case *ast.IndexListExpr:
		x.X = r.expr(x.X)
		for i := range x.Indices {
			x.Indices[i] = r.expr(x.Indices[i])
		}
		return x
	case *ast.SliceExpr:
		x.X = r.expr(x.X)
		x.Low, x.High, x.Max = r.expr(x.Low), r.expr(x.High), r.expr(x.Max)
		return x
	case *ast.TypeAssertExpr:
		x.X = r.expr(x.X)
		x.Type = r.expr(x.Type)
		return x
	case *ast.ArrayType:
		x.Len = r.expr(x.Len)
		x.Elt = r.expr(x.Elt)
		return x
	case *ast.MapType:
		x.Key = r.expr(x.Key)
		x.Value = r.expr(x.Value)
		return x
	case *ast.ChanType:
		x.Value = r.expr(x.Value)
		return x
	case *ast.StructType:
		r.fieldList(x.Fields)
		return x
	case *ast.FuncType:
		r.typesIn(x)
		return x
	case *ast.InterfaceType:
		return x
	case *ast.Ellipsis:
		x.Elt = r.expr(x.Elt)
		return x
	}
	return e
}

func (r *rw) exprs(l []ast.Expr) {
	for i := range l {
		l[i] = r.expr(l[i])
	}
}

func (r *rw) stmts(list []ast.Stmt) []ast.Stmt {
	var out []ast.Stmt
	for _, s := range list {
		out = append(out, r.stmt(s)...)
	}
	return out
}

func (r *rw) block(b *ast.BlockStmt) *ast.BlockStmt {
	if b != nil {
		b.List = r.stmts(b.List)
	}
	return b
}

func one(s []ast.Stmt) ast.Stmt {
	if len(s) == 1 {
		return s[0]
	}
	return &ast.BlockStmt{List: s}
}

func isRecv(e ast.Expr) (*ast.UnaryExpr, bool) {
	for {
		p, ok := e.(*ast.ParenExpr)
		if !ok {
			break
		}
		e = p.X
	}
	u, ok := e.(*ast.UnaryExpr)
	return u, ok && u.Op == token.ARROW
}

func (r *rw) yield(kind string, pos token.Pos) ast.Stmt {
	return &ast.ExprStmt{X: call(sel("simrt", "Yield"), r.site(kind, pos))}
}

func (r *rw) stmt(s ast.Stmt) []ast.Stmt {
	switch x := s.(type) {
	case nil:
		return nil
	case *ast.BlockStmt:
		return []ast.Stmt{r.block(x)}
	case *ast.ExprStmt:
		if c, ok := x.X.(*ast.CallExpr); ok && r.isBuiltin(c.Fun, "close") {
			y := r.yield("close", x.Pos())
			r.exprs(c.Args)
			return []ast.Stmt{y, x}
		}
		x.X = r.expr(x.X)
		return []ast.Stmt{x}
	case *ast.SendStmt:
		return []ast.Stmt{&ast.ExprStmt{X: call(sel("simrt", "SendStmt"),
			r.site("send", x.Pos()), r.expr(x.Chan), r.expr(x.Value))}}
	case *ast.AssignStmt:
		if len(x.Lhs) == 2 && len(x.Rhs) == 1 {
			if u, ok := isRecv(x.Rhs[0]); ok {
				r.exprs(x.Lhs)
				x.Rhs[0] = call(sel("simrt", "RecvExpr2"), r.site("recv", u.Pos()), r.expr(u.X))
				return []ast.Stmt{x}
			}
		}
		r.exprs(x.Lhs)
		r.exprs(x.Rhs)
		return []ast.Stmt{x}
	case *ast.DeclStmt:
		if g, ok := x.Decl.(*ast.GenDecl); ok {
			for _, sp := range g.Specs {
				switch sp := sp.(type) {
				case *ast.ValueSpec:
					if sp.Type != nil {
						sp.Type = r.expr(sp.Type)
					}
					if len(sp.Names) == 2 && len(sp.Values) == 1 {
						if u, ok := isRecv(sp.Values[0]); ok {
							sp.Values[0] = call(sel("simrt", "RecvExpr2"), r.site("recv", u.Pos()), r.expr(u.X))
							continue
						}
					}
					r.exprs(sp.Values)
				case *ast.TypeSpec:
					sp.Type = r.expr(sp.Type)
				}
			}
		}
		return []ast.Stmt{x}
	case *ast.GoStmt:
		return r.goStmt(x)
	case *ast.DeferStmt:
		if r.isBuiltin(x.Call.Fun, "close") && len(x.Call.Args) == 1 {
			v := r.fresh()
			site := r.site("close", x.Pos())
			return []ast.Stmt{
				&ast.AssignStmt{Lhs: []ast.Expr{ast.NewIdent(v)}, Tok: token.DEFINE, Rhs: []ast.Expr{r.expr(x.Call.Args[0])}},
				&ast.DeferStmt{Call: call(&ast.FuncLit{Type: &ast.FuncType{Params: &ast.FieldList{}}, Body: &ast.BlockStmt{List: []ast.Stmt{
					&ast.ExprStmt{X: call(sel("simrt", "Yield"), site)},
					&ast.ExprStmt{X: call(ast.NewIdent("close"), ast.NewIdent(v))},
				}}})},
			}
		}
		x.Call = r.expr(x.Call).(*ast.CallExpr)
		return []ast.Stmt{x}
	case *ast.ReturnStmt:
		r.exprs(x.Results)
		return []ast.Stmt{x}
	case *ast.IncDecStmt:
		x.X = r.expr(x.X)
		return []ast.Stmt{x}
	case *ast.LabeledStmt:
		if ss, ok := x.Stmt.(*ast.SelectStmt); ok {
			pre, sw := r.selectStmt(ss)
			x.Stmt = sw
			return []ast.Stmt{&ast.BlockStmt{List: append(pre, x)}}
		}
		x.Stmt = one(r.stmt(x.Stmt))
		return []ast.Stmt{x}
	case *ast.IfStmt:
		if x.Init != nil {
			init := x.Init
			x.Init = nil
			return []ast.Stmt{&ast.BlockStmt{List: append(r.stmt(init), r.stmt(x)...)}}
		}
		x.Cond = r.expr(x.Cond)
		r.block(x.Body)
		if x.Else != nil {
			x.Else = one(r.stmt(x.Else))
		}
		return []ast.Stmt{x}
	case *ast.ForStmt:
		if x.Init != nil {
			x.Init = one(r.stmt(x.Init))
		}
		x.Cond = r.expr(x.Cond)
		if x.Post != nil {
			x.Post = one(r.stmt(x.Post))
		}
		r.block(x.Body)
		return []ast.Stmt{x}
	case *ast.RangeStmt:
		return r.rangeStmt(x)
	case *ast.SwitchStmt:
		if x.Init != nil {
			init := x.Init
			x.Init = nil
			return []ast.Stmt{&ast.BlockStmt{List: append(r.stmt(init), r.stmt(x)...)}}
		}
		x.Tag = r.expr(x.Tag)
		r.block(x.Body)
		return []ast.Stmt{x}
	case *ast.TypeSwitchStmt:
		if x.Init != nil {
			x.Init = one(r.stmt(x.Init))
		}
		x.Assign = one(r.stmt(x.Assign))
		r.block(x.Body)
		return []ast.Stmt{x}
	case *ast.CaseClause:
		r.exprs(x.List)
		x.Body = r.stmts(x.Body)
		return []ast.Stmt{x}
	case *ast.SelectStmt:
		pre, sw := r.selectStmt(x)
		return []ast.Stmt{&ast.BlockStmt{List: append(pre, sw)}}
	}
	return []ast.Stmt{s}
}

// selectStmt returns the operand declarations and the replacing switch.
func (r *rw) selectStmt(x *ast.SelectStmt) ([]ast.Stmt, ast.Stmt) {
	var pre []ast.Stmt
	var ops []ast.Expr
	hasDefault := false
	sw := &ast.SwitchStmt{Body: &ast.BlockStmt{}}
	idx := 0
	for _, c := range x.Body.List {
		cc := c.(*ast.CommClause)
		if cc.Comm == nil {
			hasDefault = true
			sw.Body.List = append(sw.Body.List, &ast.CaseClause{Body: r.stmts(cc.Body)})
			continue
		}
		v := r.fresh()
		var prologue []ast.Stmt
		switch m := cc.Comm.(type) {
		case *ast.SendStmt:
			pre = append(pre, define(v, call(sel("simrt", "Send"), r.expr(m.Chan), r.expr(m.Value))))
		case *ast.ExprStmt:
			u, ok := isRecv(m.X)
			if !ok {
				die(fmt.Errorf("%s: unsupported comm clause", r.fset.Position(m.Pos())))
			}
			pre = append(pre, define(v, call(sel("simrt", "Recv"), r.expr(u.X))))
		case *ast.AssignStmt:
			u, ok := isRecv(m.Rhs[0])
			if !ok {
				die(fmt.Errorf("%s: unsupported comm clause", r.fset.Position(m.Pos())))
			}
			pre = append(pre, define(v, call(sel("simrt", "Recv"), r.expr(u.X))))
			r.exprs(m.Lhs)
			rhs := []ast.Expr{&ast.SelectorExpr{X: ast.NewIdent(v), Sel: ast.NewIdent("V")}}
			if len(m.Lhs) == 2 {
				rhs = append(rhs, &ast.SelectorExpr{X: ast.NewIdent(v), Sel: ast.NewIdent("OK")})
			}
			prologue = append(prologue, &ast.AssignStmt{Lhs: m.Lhs, Tok: m.Tok, Rhs: rhs})
		}
		ops = append(ops, ast.NewIdent(v))
		sw.Body.List = append(sw.Body.List, &ast.CaseClause{
			List: []ast.Expr{&ast.BasicLit{Kind: token.INT, Value: strconv.Itoa(idx)}},
			Body: append(prologue, r.stmts(cc.Body)...)})
		idx++
	}
	hd := "false"
	if hasDefault {
		hd = "true"
	} else {
		// keep the switch a terminating statement when the select was one
		sw.Body.List = append(sw.Body.List, &ast.CaseClause{Body: []ast.Stmt{
			&ast.ExprStmt{X: call(ast.NewIdent("panic"), strLit("simrt: bad select index"))}}})
	}
	args := append([]ast.Expr{r.site("select", x.Pos()), ast.NewIdent(hd)}, ops...)
	sw.Tag = call(sel("simrt", "Select"), args...)
	return pre, sw
}

func define(name string, v ast.Expr) ast.Stmt {
	return &ast.AssignStmt{Lhs: []ast.Expr{ast.NewIdent(name)}, Tok: token.DEFINE, Rhs: []ast.Expr{v}}
}

func (r *rw) goStmt(x *ast.GoStmt) []ast.Stmt {
	site := r.site("go", x.Pos())
	var pre []ast.Stmt
	c := x.Call
	var fun ast.Expr
	if id, ok := c.Fun.(*ast.Ident); ok && r.isBuiltin(id, id.Name) {
		fun = c.Fun // builtin: cannot be bound to a variable
	} else {
		fv := r.fresh()
		pre = append(pre, define(fv, r.expr(c.Fun)))
		fun = ast.NewIdent(fv)
	}
	var args []ast.Expr
	for _, a := range c.Args {
		av := r.fresh()
		pre = append(pre, define(av, r.expr(a)))
		args = append(args, ast.NewIdent(av))
	}
	inner := &ast.CallExpr{Fun: fun, Args: args, Ellipsis: c.Ellipsis}
	if c.Ellipsis != token.NoPos {
		inner.Ellipsis = 1
	}
	lit := &ast.FuncLit{Type: &ast.FuncType{Params: &ast.FieldList{}},
		Body: &ast.BlockStmt{List: []ast.Stmt{&ast.ExprStmt{X: inner}}}}
	pre = append(pre, &ast.ExprStmt{X: call(sel("simrt", "Go"), site, lit)})
	return []ast.Stmt{&ast.BlockStmt{List: pre}}
}

func (r *rw) rangeStmt(x *ast.RangeStmt) []ast.Stmt {
	tv, ok := r.info.Types[x.X]
	x.X = r.expr(x.X)
	isMap := false
	if ok && tv.Type != nil {
		_, isMap = tv.Type.Underlying().(*types.Map)
	}
	if ok && tv.Type != nil {
		if _, isChan := tv.Type.Underlying().(*types.Chan); isChan {
			// for v := range ch  =>  for { v, ok := RecvExpr2(ch); if !ok { break }; body }
			chv := r.fresh()
			okv := r.fresh()
			site := r.site("rangechan", x.Pos())
			body := r.block(x.Body)
			var lhs ast.Expr = ast.NewIdent("_")
			tok := token.DEFINE
			if x.Key != nil {
				lhs = x.Key
				if x.Tok == token.ASSIGN {
					// v, ok = ... needs ok declared; declare it separately
					tok = token.ASSIGN
				}
			}
			var recv []ast.Stmt
			if tok == token.ASSIGN {
				recv = []ast.Stmt{
					&ast.DeclStmt{Decl: &ast.GenDecl{Tok: token.VAR, Specs: []ast.Spec{&ast.ValueSpec{
						Names: []*ast.Ident{ast.NewIdent(okv)}, Type: ast.NewIdent("bool")}}}},
					&ast.AssignStmt{Lhs: []ast.Expr{lhs, ast.NewIdent(okv)}, Tok: token.ASSIGN,
						Rhs: []ast.Expr{call(sel("simrt", "RecvExpr2"), site, ast.NewIdent(chv))}},
				}
			} else {
				recv = []ast.Stmt{&ast.AssignStmt{Lhs: []ast.Expr{lhs, ast.NewIdent(okv)}, Tok: token.DEFINE,
					Rhs: []ast.Expr{call(sel("simrt", "RecvExpr2"), site, ast.NewIdent(chv))}}}
			}
			recv = append(recv, &ast.IfStmt{Cond: &ast.UnaryExpr{Op: token.NOT, X: ast.NewIdent(okv)},
				Body: &ast.BlockStmt{List: []ast.Stmt{&ast.BranchStmt{Tok: token.BREAK}}}})
			body.List = append(recv, body.List...)
			return []ast.Stmt{&ast.BlockStmt{List: []ast.Stmt{define(chv, x.X), &ast.ForStmt{Body: body}}}}
		}
	}
	if !isMap {
		r.block(x.Body)
		return []ast.Stmt{x}
	}
	if x.Tok == token.ASSIGN {
		die(fmt.Errorf("%s: range over map with '=' not supported", r.fset.Position(x.Pos())))
	}
	m := r.fresh()
	k := r.fresh()
	body := r.block(x.Body)
	keyName := "_"
	if id, ok := x.Key.(*ast.Ident); ok && x.Key != nil {
		keyName = id.Name
	}
	valName := "_"
	if x.Value != nil {
		valName = x.Value.(*ast.Ident).Name
	}
	okv := r.fresh()
	vv := r.fresh()
	// vv, ok := m[k]; if !ok { continue }
	var prologue []ast.Stmt
	lhsV := ast.NewIdent("_")
	if valName != "_" {
		lhsV = ast.NewIdent(vv)
	}
	prologue = append(prologue,
		&ast.AssignStmt{Lhs: []ast.Expr{lhsV, ast.NewIdent(okv)}, Tok: token.DEFINE,
			Rhs: []ast.Expr{&ast.IndexExpr{X: ast.NewIdent(m), Index: ast.NewIdent(k)}}},
		&ast.IfStmt{Cond: &ast.UnaryExpr{Op: token.NOT, X: ast.NewIdent(okv)},
			Body: &ast.BlockStmt{List: []ast.Stmt{&ast.BranchStmt{Tok: token.CONTINUE}}}})
	pre := []ast.Stmt{define(m, x.X)}
	if r.sharedLoopVars {
		// Go < 1.22: ONE variable per loop, shared by all iterations (and by every
		// closure that captures it). Declare the loop variables outside the loop
		// and assign to them, so that capture semantics are the shipped ones.
		if keyName != "_" || valName != "_" {
			pre = append(pre, &ast.AssignStmt{Lhs: []ast.Expr{ast.NewIdent(keyName), ast.NewIdent(valName)}, Tok: token.DEFINE,
				Rhs: []ast.Expr{call(sel("simrt", "MapZero"), ast.NewIdent(m))}})
		}
		if keyName != "_" {
			prologue = append(prologue, &ast.AssignStmt{Lhs: []ast.Expr{ast.NewIdent(keyName)}, Tok: token.ASSIGN, Rhs: []ast.Expr{ast.NewIdent(k)}},
				&ast.AssignStmt{Lhs: []ast.Expr{ast.NewIdent("_")}, Tok: token.ASSIGN, Rhs: []ast.Expr{ast.NewIdent(keyName)}})
		}
		if valName != "_" {
			prologue = append(prologue, &ast.AssignStmt{Lhs: []ast.Expr{ast.NewIdent(valName)}, Tok: token.ASSIGN, Rhs: []ast.Expr{ast.NewIdent(vv)}},
				&ast.AssignStmt{Lhs: []ast.Expr{ast.NewIdent("_")}, Tok: token.ASSIGN, Rhs: []ast.Expr{ast.NewIdent(valName)}})
		}
	} else {
		// Go >= 1.22: a fresh variable per iteration
		if keyName != "_" {
			prologue = append(prologue, define(keyName, ast.NewIdent(k)),
				&ast.AssignStmt{Lhs: []ast.Expr{ast.NewIdent("_")}, Tok: token.ASSIGN, Rhs: []ast.Expr{ast.NewIdent(keyName)}})
		}
		if valName != "_" {
			prologue = append(prologue, define(valName, ast.NewIdent(vv)),
				&ast.AssignStmt{Lhs: []ast.Expr{ast.NewIdent("_")}, Tok: token.ASSIGN, Rhs: []ast.Expr{ast.NewIdent(valName)}})
		}
	}
	body.List = append(prologue, body.List...)
	loop := &ast.RangeStmt{Key: ast.NewIdent("_"), Value: ast.NewIdent(k), Tok: token.DEFINE,
		X: call(sel("simrt", "MapKeys"), r.site("maprange", x.Pos()), ast.NewIdent(m)), Body: body}
	return []ast.Stmt{&ast.BlockStmt{List: append(pre, loop)}}
}
