// Package simrt is the runtime that the instrumented copy of corebgp (and the
// simulation harness) calls into. It turns every synchronisation operation
// into a schedule point owned by a single-threaded, tape-driven scheduler:
// real goroutines are parked on private channels and released one at a time.
//
// With no simulator installed (Active() == nil) every entry point falls back
// to the native Go construct; that "pass-through" mode is what the data-race
// clause of C10 runs under.
package simrt

import (
	"context"
	"fmt"
	"net"
	"reflect"
	"runtime"
	"sort"
	"strconv"
	"sync"
	"sync/atomic"
	"time"
)

// Chooser is the single source of nondeterminism (the choice tape).
type Chooser interface {
	Draw(n int, what string) int
}

const (
	StRunning int32 = iota
	StParked
	StBlocked
	StDead
)

// Task is one goroutine under scheduler control.
type Task struct {
	ID     string
	Lib    bool // created by a `go` statement inside the instrumented library
	Parent *Task
	Label  string      // what the task was spawned as (its first site)
	Site   string      // last schedule point / blocking site
	Ready  func() bool // only read by the scheduler while the task is parked; nil = runnable
	Tag    string      // wait class of a conditional park ("quiesce", "cond", "")
	Born   int         // scheduler step at which it was spawned
	// TimerWait marks a task that only stands for a pending time.AfterFunc: it is
	// not a goroutine of the real program until the timer fires
	TimerWait atomic.Bool

	resume chan struct{}
	spawns int
	state  atomic.Int32
}

func (t *Task) State() int32 { return t.state.Load() }

// IsDescendantOf reports whether a is t or an ancestor of t.
func (t *Task) IsDescendantOf(a *Task) bool {
	for x := t; x != nil; x = x.Parent {
		if x == a {
			return true
		}
	}
	return false
}

type PanicRec struct {
	Task  string
	Lib   bool
	Value any
	Stack string
}

type Sim struct {
	mu     sync.Mutex
	byGoid map[int64]*Task
	parked map[*Task]struct{}
	alive  map[*Task]struct{}

	Notify chan struct{}
	Ch     Chooser
	Panics []PanicRec
	Steps  int

	// Dial is the simulated network's dialler.
	Dial func(ctx context.Context, d *net.Dialer, network, addr string) (net.Conn, error)
	// SelectHook, if set, is told which case a library select took (for probes).
	SelectHook func(site string, ncases int, chosen int, wasBlocked bool)

	abort    chan struct{}
	aborting atomic.Bool

	timers   int
	expiries map[int64]struct{}

	// OldTimers makes simrt.Timer emulate the timer channels of Go < 1.23
	// (GODEBUG asynctimerchan=1, what a main module declaring go < 1.23 gets):
	// a buffered channel of capacity 1 that Stop and Reset do not drain, so a
	// tick that fired but was not received survives a Reset.
	OldTimers bool
}

var cur atomic.Pointer[Sim]

// GlobalSteps counts scheduler releases over the whole process (progress
// indicator for the worker's hang watchdog).
var GlobalSteps atomic.Int64

func Install(s *Sim) { cur.Store(s) }
func Uninstall()     { cur.Store(nil) }
func Active() *Sim   { return cur.Load() }

func New(ch Chooser) *Sim {
	return &Sim{
		byGoid:   map[int64]*Task{},
		parked:   map[*Task]struct{}{},
		alive:    map[*Task]struct{}{},
		Notify:   make(chan struct{}, 1),
		Ch:       ch,
		abort:    make(chan struct{}),
		expiries: map[int64]struct{}{},
	}
}

func goid() int64 {
	var buf [64]byte
	n := runtime.Stack(buf[:], false)
	b := buf[10:n] // after "goroutine "
	i := 0
	for i < len(b) && b[i] >= '0' && b[i] <= '9' {
		i++
	}
	id, _ := strconv.ParseInt(string(b[:i]), 10, 64)
	return id
}

// ErrNotTask is the panic value used when simrt is entered from a goroutine the
// simulator does not know (an uninstrumented way of starting goroutines).
type ErrNotTask struct{ Goid int64 }

func (e ErrNotTask) Error() string {
	return fmt.Sprintf("simrt: goroutine %d is not a simulator task", e.Goid)
}

func (s *Sim) me() *Task {
	g := goid()
	s.mu.Lock()
	t := s.byGoid[g]
	s.mu.Unlock()
	if t == nil {
		if s.aborting.Load() {
			runtime.Goexit()
		}
		panic(ErrNotTask{g})
	}
	return t
}

// Current returns the calling task (nil in pass-through mode).
func Current() *Task {
	s := Active()
	if s == nil {
		return nil
	}
	return s.me()
}

// CurrentID returns the calling task's id, or "" in pass-through mode.
func CurrentID() string {
	if t := Current(); t != nil {
		return t.ID
	}
	return ""
}

func (s *Sim) poke() {
	select {
	case s.Notify <- struct{}{}:
	default:
	}
}

func (t *Task) park(s *Sim, site string) {
	if s.aborting.Load() {
		runtime.Goexit()
	}
	s.mu.Lock()
	t.Site = site
	t.state.Store(StParked)
	s.parked[t] = struct{}{}
	s.mu.Unlock()
	s.poke()
	select {
	case <-t.resume:
	case <-s.abort:
		runtime.Goexit()
	}
}

func (t *Task) setBlocked(s *Sim, site string) {
	s.mu.Lock()
	t.Site = site
	t.state.Store(StBlocked)
	s.mu.Unlock()
}

// Spawn starts fn as a task with the given id; it parks before running.
func (s *Sim) Spawn(id, site string, fn func()) *Task {
	return s.spawn(id, site, fn, false, nil)
}

// SpawnChild starts a harness task named after the calling task.
func (s *Sim) SpawnChild(site string, fn func()) *Task {
	p := s.me()
	p.spawns++
	return s.spawn(p.ID+"."+strconv.Itoa(p.spawns), site, fn, false, p)
}

func (s *Sim) spawn(id, site string, fn func(), lib bool, parent *Task) *Task {
	t := &Task{ID: id, Lib: lib, Parent: parent, Label: site, resume: make(chan struct{})}
	s.mu.Lock()
	t.Born = s.Steps
	s.alive[t] = struct{}{}
	s.mu.Unlock()
	go func() {
		g := goid()
		s.mu.Lock()
		s.byGoid[g] = t
		s.mu.Unlock()
		defer func() {
			if r := recover(); r != nil {
				buf := make([]byte, 16384)
				buf = buf[:runtime.Stack(buf, false)]
				s.mu.Lock()
				s.Panics = append(s.Panics, PanicRec{t.ID, t.Lib, r, string(buf)})
				s.mu.Unlock()
			}
			s.mu.Lock()
			delete(s.byGoid, g)
			delete(s.alive, t)
			delete(s.parked, t)
			t.state.Store(StDead)
			s.mu.Unlock()
			s.poke()
		}()
		t.park(s, site)
		fn()
	}()
	return t
}

// Parked returns the parked tasks sorted by id.
func (s *Sim) Parked() []*Task {
	s.mu.Lock()
	out := make([]*Task, 0, len(s.parked))
	for t := range s.parked {
		out = append(out, t)
	}
	s.mu.Unlock()
	sort.Slice(out, func(i, j int) bool { return out[i].ID < out[j].ID })
	return out
}

// AliveTasks returns all live tasks sorted by id.
func (s *Sim) AliveTasks() []*Task {
	s.mu.Lock()
	out := make([]*Task, 0, len(s.alive))
	for t := range s.alive {
		out = append(out, t)
	}
	s.mu.Unlock()
	sort.Slice(out, func(i, j int) bool { return out[i].ID < out[j].ID })
	return out
}

func (s *Sim) NumAlive() int {
	s.mu.Lock()
	defer s.mu.Unlock()
	return len(s.alive)
}

// Running returns tasks that are neither parked, blocked in a simrt primitive
// nor dead. Called after synctest.Wait it must be empty; anything in it is
// blocked in an operation the instrumenter did not see.
func (s *Sim) Running() []*Task {
	s.mu.Lock()
	defer s.mu.Unlock()
	var out []*Task
	for t := range s.alive {
		if t.state.Load() == StRunning {
			out = append(out, t)
		}
	}
	sort.Slice(out, func(i, j int) bool { return out[i].ID < out[j].ID })
	return out
}

// Release lets exactly one parked task run until its next schedule point.
func (s *Sim) Release(t *Task) {
	s.mu.Lock()
	delete(s.parked, t)
	t.state.Store(StRunning)
	t.Ready = nil
	t.Tag = ""
	s.Steps++
	s.mu.Unlock()
	GlobalSteps.Add(1)
	t.resume <- struct{}{}
}

// Abort makes every task exit (runtime.Goexit) at its current or next simrt
// entry. Used at the end of a run so that the bubble can be left.
func (s *Sim) Abort() {
	if s.aborting.CompareAndSwap(false, true) {
		close(s.abort)
	}
}

func (s *Sim) Aborting() bool { return s.aborting.Load() }

// ---------------------------------------------------------------------------
// calls made by instrumented code and by simulator objects

// Yield is a schedule point.
func Yield(site string) {
	s := Active()
	if s == nil {
		return
	}
	s.me().park(s, site)
}

// WaitCond parks the calling harness task until cond() holds. cond is
// evaluated by the scheduler only, at moments when no task runs.
func WaitCond(site, tag string, cond func() bool) {
	s := Active()
	if s == nil {
		for !cond() {
			time.Sleep(time.Millisecond)
		}
		return
	}
	t := s.me()
	for {
		t.Ready = cond
		t.Tag = tag
		t.park(s, site)
		if cond() {
			return
		}
	}
}

// BlockOn blocks the calling task on w (a channel a simulator object closes),
// then parks it.
func BlockOn(site string, w <-chan struct{}) {
	s := Active()
	if s == nil {
		<-w
		return
	}
	t := s.me()
	t.setBlocked(s, site)
	select {
	case <-w:
	case <-s.abort:
		runtime.Goexit()
	}
	t.park(s, site)
}

// BlockOn2 blocks on two channels and returns the index of the one that fired.
// Callers must have polled both (in a fixed order) before calling.
func BlockOn2(site string, a, b <-chan struct{}) int {
	s := Active()
	if s == nil {
		select {
		case <-a:
			return 0
		case <-b:
			return 1
		}
	}
	t := s.me()
	t.setBlocked(s, site)
	r := 0
	select {
	case <-a:
	case <-b:
		r = 1
	case <-s.abort:
		runtime.Goexit()
	}
	t.park(s, site)
	return r
}

// Go replaces a `go` statement of the instrumented library.
func Go(site string, fn func()) {
	s := Active()
	if s == nil {
		go fn()
		return
	}
	p := s.me()
	p.spawns++
	s.spawn(p.ID+"."+strconv.Itoa(p.spawns), site, fn, true, p)
}

type Op interface {
	rcase() reflect.SelectCase
	try() bool
	set(v reflect.Value, ok bool)
}

type RecvOp[T any] struct {
	c  <-chan T
	V  T
	OK bool
}

func Recv[T any](c <-chan T) *RecvOp[T] { return &RecvOp[T]{c: c} }
func (r *RecvOp[T]) rcase() reflect.SelectCase {
	return reflect.SelectCase{Dir: reflect.SelectRecv, Chan: reflect.ValueOf(r.c)}
}
func (r *RecvOp[T]) try() bool {
	select {
	case r.V, r.OK = <-r.c:
		return true
	default:
		return false
	}
}
func (r *RecvOp[T]) set(v reflect.Value, ok bool) {
	r.OK = ok
	if ok {
		r.V, _ = v.Interface().(T)
	}
}

type SendOp struct {
	c reflect.Value
	v reflect.Value
}

// Send takes (any, any): generic inference rejects e.g. chan error <- *T.
func Send(c any, v any) *SendOp {
	cv := reflect.ValueOf(c)
	et := cv.Type().Elem()
	var vv reflect.Value
	if v == nil {
		vv = reflect.Zero(et)
	} else {
		vv = reflect.ValueOf(v)
		if !vv.Type().AssignableTo(et) {
			vv = vv.Convert(et)
		}
	}
	return &SendOp{cv, vv}
}
func (o *SendOp) rcase() reflect.SelectCase {
	return reflect.SelectCase{Dir: reflect.SelectSend, Chan: o.c, Send: o.v}
}
func (o *SendOp) try() bool {
	if o.c.IsNil() {
		return false
	}
	return o.c.TrySend(o.v)
}
func (o *SendOp) set(reflect.Value, bool) {}

// Select replaces a select statement (and, with one case, a plain channel
// operation). It returns the index of the chosen case, -1 for default.
func Select(site string, hasDefault bool, ops ...Op) int {
	s := Active()
	if s == nil {
		cases := make([]reflect.SelectCase, 0, len(ops)+1)
		for _, o := range ops {
			cases = append(cases, o.rcase())
		}
		if hasDefault {
			cases = append(cases, reflect.SelectCase{Dir: reflect.SelectDefault})
		}
		i, v, ok := reflect.Select(cases)
		if i == len(ops) {
			return -1
		}
		ops[i].set(v, ok)
		return i
	}
	t := s.me()
	t.park(s, site)
	n := len(ops)
	// Poll the cases one by one in an order taken from the tape; the first
	// ready one wins. Any outcome is one the Go spec allows.
	var idxbuf [8]int
	idx := idxbuf[:0]
	for i := 0; i < n; i++ {
		idx = append(idx, i)
	}
	for len(idx) > 0 {
		k := 0
		if len(idx) > 1 {
			k = s.Ch.Draw(len(idx), "selectpoll")
		}
		c := idx[k]
		idx = append(idx[:k], idx[k+1:]...)
		if ops[c].try() {
			if s.SelectHook != nil {
				s.SelectHook(site, n, c, false)
			}
			return c
		}
	}
	if hasDefault {
		if s.SelectHook != nil {
			s.SelectHook(site, n, -1, false)
		}
		return -1
	}
	cases := make([]reflect.SelectCase, n+1)
	for i, o := range ops {
		cases[i] = o.rcase()
	}
	cases[n] = reflect.SelectCase{Dir: reflect.SelectRecv, Chan: reflect.ValueOf(s.abort)}
	t.setBlocked(s, site)
	i, v, ok := reflect.Select(cases)
	if i == n {
		runtime.Goexit()
	}
	ops[i].set(v, ok)
	t.park(s, site)
	if s.SelectHook != nil {
		s.SelectHook(site, n, i, true)
	}
	return i
}

func RecvExpr[T any](site string, c <-chan T) T {
	op := Recv(c)
	Select(site, false, op)
	return op.V
}

func RecvExpr2[T any](site string, c <-chan T) (T, bool) {
	op := Recv(c)
	Select(site, false, op)
	return op.V, op.OK
}

func SendStmt(site string, c any, v any) {
	Select(site, false, Send(c, v))
}

// D perturbs a timer duration by a small non-negative offset such that no two
// timers of one run ever expire in the same instant: the runtime's tie-break
// for a goroutine blocked on two timer channels depends on channel addresses
// and does not replay.
func D(site string, d time.Duration) time.Duration {
	s := Active()
	if s == nil || d <= 0 {
		return d
	}
	off := s.UniqueOffset(d, s.Ch.Draw(64, "timerjitter"))
	return d + off
}

// UniqueOffset returns an offset < ~1.1ms such that now+d+offset is an expiry
// instant no other timer of this run has.
func (s *Sim) UniqueOffset(d time.Duration, k int) time.Duration {
	s.mu.Lock()
	defer s.mu.Unlock()
	s.timers++
	off := int64(k)*16384 + int64(s.timers%16384)
	exp := time.Now().UnixNano() + int64(d) + off
	for {
		if _, dup := s.expiries[exp]; !dup {
			break
		}
		exp++
		off++
	}
	s.expiries[exp] = struct{}{}
	return time.Duration(off)
}

// Sleep replaces time.Sleep.
func Sleep(site string, d time.Duration) {
	s := Active()
	if s == nil {
		time.Sleep(d)
		return
	}
	t := s.me()
	t.park(s, site)
	if d <= 0 {
		return
	}
	tm := time.NewTimer(D(site, d))
	t.setBlocked(s, site)
	select {
	case <-tm.C:
	case <-s.abort:
		runtime.Goexit()
	}
	t.park(s, site)
}

func DialContext(site string, d *net.Dialer, ctx context.Context, network, addr string) (net.Conn, error) {
	s := Active()
	if s == nil {
		if df := passDial.Load(); df != nil {
			return (*df)(ctx, d, network, addr)
		}
		return d.DialContext(ctx, network, addr)
	}
	if s.Dial == nil {
		return d.DialContext(ctx, network, addr)
	}
	Yield(site)
	return s.Dial(ctx, d, network, addr)
}

type DialFunc func(ctx context.Context, d *net.Dialer, network, addr string) (net.Conn, error)

var passDial atomic.Pointer[DialFunc]

// SetPassthroughDial installs the dialler used when no simulator is active
// (race mode).
func SetPassthroughDial(f DialFunc) {
	if f == nil {
		passDial.Store(nil)
		return
	}
	passDial.Store(&f)
}

// MapZero returns zero values of a map's key and value types (used to declare
// per-loop variables for `for k, v := range m` under pre-1.22 semantics).
func MapZero[K comparable, V any](m map[K]V) (k K, v V) { return }

func MapKeys[K comparable, V any](site string, m map[K]V) []K {
	keys := make([]K, 0, len(m))
	for k := range m {
		keys = append(keys, k)
	}
	s := Active()
	if s == nil {
		return keys
	}
	if len(keys) > 1 {
		strs := make(map[K]string, len(keys))
		for _, k := range keys {
			strs[k] = fmt.Sprint(k)
		}
		sort.Slice(keys, func(i, j int) bool { return strs[keys[i]] < strs[keys[j]] })
		for i := len(keys) - 1; i > 0; i-- {
			j := i - s.Ch.Draw(i+1, "maporder") // 0 keeps sorted order
			keys[i], keys[j] = keys[j], keys[i]
		}
	}
	return keys
}

// ---------------------------------------------------------------------------
// sync replacements: same blocking semantics; waiting is a durable channel
// block; after an unlock all waiters are woken and re-contend in the order the
// scheduler picks.

type waitq struct {
	ws []chan struct{}
}

func (q *waitq) wait(site string) {
	w := make(chan struct{})
	q.ws = append(q.ws, w)
	BlockOn(site, w)
}

func (q *waitq) wakeAll() {
	for _, w := range q.ws {
		close(w)
	}
	q.ws = nil
}

type Mutex struct {
	real   sync.Mutex
	locked bool
	q      waitq
}

func (m *Mutex) Lock() {
	if Active() == nil {
		m.real.Lock()
		return
	}
	Yield("mutex.lock")
	for m.locked {
		m.q.wait("mutex.wait")
	}
	m.locked = true
}

func (m *Mutex) TryLock() bool {
	if Active() == nil {
		return m.real.TryLock()
	}
	Yield("mutex.trylock")
	if m.locked {
		return false
	}
	m.locked = true
	return true
}

func (m *Mutex) Unlock() {
	if Active() == nil {
		m.real.Unlock()
		return
	}
	if !m.locked {
		panic("sync: unlock of unlocked mutex")
	}
	m.locked = false
	m.q.wakeAll()
}

type RWMutex struct {
	real    sync.RWMutex
	writer  bool
	readers int
	q       waitq
}

func (m *RWMutex) Lock() {
	if Active() == nil {
		m.real.Lock()
		return
	}
	Yield("rwmutex.lock")
	for m.writer || m.readers > 0 {
		m.q.wait("rwmutex.wait")
	}
	m.writer = true
}

func (m *RWMutex) Unlock() {
	if Active() == nil {
		m.real.Unlock()
		return
	}
	if !m.writer {
		panic("sync: Unlock of unlocked RWMutex")
	}
	m.writer = false
	m.q.wakeAll()
}

func (m *RWMutex) RLock() {
	if Active() == nil {
		m.real.RLock()
		return
	}
	Yield("rwmutex.rlock")
	for m.writer {
		m.q.wait("rwmutex.rwait")
	}
	m.readers++
}

func (m *RWMutex) RUnlock() {
	if Active() == nil {
		m.real.RUnlock()
		return
	}
	if m.readers <= 0 {
		panic("sync: RUnlock of unlocked RWMutex")
	}
	m.readers--
	if m.readers == 0 {
		m.q.wakeAll()
	}
}

type Once struct {
	real  sync.Once
	state int // 0 new, 1 running, 2 done
	q     waitq
}

func (o *Once) Do(f func()) {
	if Active() == nil {
		o.real.Do(f)
		return
	}
	Yield("once.do")
	for o.state == 1 {
		o.q.wait("once.wait")
	}
	if o.state == 2 {
		return
	}
	o.state = 1
	defer func() {
		o.state = 2
		o.q.wakeAll()
	}()
	f()
}

type WaitGroup struct {
	real sync.WaitGroup
	n    int
	q    waitq
}

func (g *WaitGroup) Add(d int) {
	if Active() == nil {
		g.real.Add(d)
		return
	}
	g.n += d
	if g.n < 0 {
		panic("sync: negative WaitGroup counter")
	}
	if g.n == 0 {
		g.q.wakeAll()
	}
}

func (g *WaitGroup) Done() { g.Add(-1) }

func (g *WaitGroup) Wait() {
	if Active() == nil {
		g.real.Wait()
		return
	}
	Yield("wg.wait")
	for g.n > 0 {
		g.q.wait("wg.blocked")
	}
}

// ---------------------------------------------------------------------------
// Timer replaces time.Timer in the instrumented copy. With OldTimers unset it
// is a thin wrapper around the native timer (Go >= 1.23 semantics, which is
// what testing/synctest requires of the harness' own module). With OldTimers
// set it emulates the pre-1.23 channel timers on top of time.AfterFunc.

type Timer struct {
	C   <-chan time.Time
	c   chan time.Time
	nt  *time.Timer
	old bool

	// AfterFunc timers in simulation mode: f runs in a library task of its own
	af      bool
	afSite  string
	afFn    func()
	afSim   *Sim
	afOwner *Task
	afCtl   chan time.Duration // re-arm the waiting task (negative: stop)
	afLive  bool               // a task is waiting for the expiry
}

func NewTimer(d time.Duration) *Timer {
	s := Active()
	if s == nil || !s.OldTimers {
		nt := time.NewTimer(d)
		return &Timer{C: nt.C, nt: nt}
	}
	c := make(chan time.Time, 1)
	t := &Timer{C: c, c: c, old: true}
	fire := func() {
		select {
		case c <- time.Now():
		default:
		}
	}
	if d <= 0 {
		// already expired: deliver synchronously (an AfterFunc goroutine would race
		// with the creator's own receive and make the step sequence vary)
		c <- time.Now()
		t.nt = time.AfterFunc(time.Hour, fire)
		t.nt.Stop()
		return t
	}
	t.nt = time.AfterFunc(d, fire)
	return t
}

// Stop reports whether the call stopped the timer before it fired. It never
// drains the channel (in old mode a fired tick stays buffered).
func (t *Timer) Stop() bool {
	if t.af {
		if !t.afLive {
			return false
		}
		t.afLive = false
		t.afCtl <- -1
		return true
	}
	return t.nt.Stop()
}

func (t *Timer) Reset(d time.Duration) bool {
	if t.af {
		if t.afLive {
			t.afCtl <- d
			return true
		}
		t.afArm(d)
		return false
	}
	if t.old && d <= 0 {
		active := t.nt.Stop()
		select {
		case t.c <- time.Now():
		default:
		}
		return active
	}
	return t.nt.Reset(d)
}

// After replaces time.After.
func After(d time.Duration) <-chan time.Time { return NewTimer(d).C }

// ---------------------------------------------------------------------------
// Cond replaces sync.Cond.

type Cond struct {
	L    sync.Locker
	real *sync.Cond
	ws   []chan struct{}
}

func NewCond(l sync.Locker) *Cond { return &Cond{L: l, real: sync.NewCond(l)} }

func (c *Cond) Wait() {
	s := Active()
	if s == nil {
		c.real.Wait()
		return
	}
	w := make(chan struct{})
	c.ws = append(c.ws, w)
	c.L.Unlock()
	BlockOn("cond.wait", w)
	c.L.Lock()
}

func (c *Cond) Signal() {
	s := Active()
	if s == nil {
		c.real.Signal()
		return
	}
	if len(c.ws) == 0 {
		return
	}
	k := 0
	if len(c.ws) > 1 {
		k = s.Ch.Draw(len(c.ws), "cond.signal")
	}
	w := c.ws[k]
	c.ws = append(c.ws[:k], c.ws[k+1:]...)
	close(w)
}

func (c *Cond) Broadcast() {
	if Active() == nil {
		c.real.Broadcast()
		return
	}
	for _, w := range c.ws {
		close(w)
	}
	c.ws = nil
}

// Dial / DialTimeout / DialerDial replace the context-free dial entry points.
func Dial(site, network, addr string) (net.Conn, error) {
	return DialContext(site, &net.Dialer{}, context.Background(), network, addr)
}

func DialTimeout(site, network, addr string, d time.Duration) (net.Conn, error) {
	ctx, cancel := context.WithTimeout(context.Background(), d)
	defer cancel()
	return DialContext(site, &net.Dialer{}, ctx, network, addr)
}

func DialerDial(site string, d *net.Dialer, network, addr string) (net.Conn, error) {
	ctx := context.Background()
	if d.Timeout > 0 {
		var cancel context.CancelFunc
		ctx, cancel = context.WithTimeout(ctx, d.Timeout)
		defer cancel()
	}
	return DialContext(site, d, ctx, network, addr)
}

// AfterFunc replaces time.AfterFunc. In simulation mode f runs in a library
// task of its own (created right away, blocked until the expiry) so that
// whatever f does is scheduled like everything else.
func AfterFunc(site string, d time.Duration, f func()) *Timer {
	s := Active()
	if s == nil {
		return &Timer{nt: time.AfterFunc(d, f)}
	}
	t := &Timer{af: true, afSite: site, afFn: f, afSim: s, afOwner: s.me()}
	t.afArm(d)
	return t
}

func (t *Timer) afArm(d time.Duration) {
	s := t.afSim
	ctl := make(chan time.Duration, 16)
	t.afCtl = ctl
	t.afLive = true
	p := s.me()
	p.spawns++
	s.spawn(p.ID+"."+strconv.Itoa(p.spawns), t.afSite, func() {
		me := s.me()
		me.TimerWait.Store(true)
		nt := time.NewTimer(D(t.afSite, d))
		for {
			me.setBlocked(s, t.afSite)
			select {
			case <-nt.C:
				me.park(s, t.afSite)
				if t.afCtl == ctl {
					t.afLive = false
				}
				me.TimerWait.Store(false)
				t.afFn()
				return
			case nd := <-ctl:
				nt.Stop()
				me.park(s, t.afSite)
				if nd < 0 {
					return
				}
				nt = time.NewTimer(D(t.afSite, nd))
			case <-s.abort:
				runtime.Goexit()
			}
		}
	}, true, p)
}
