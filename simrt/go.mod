module simrt

go 1.21
