#!/usr/bin/env python3
"""No-false-alarm test: apply a behaviour-preserving (for the 15 properties) refactor to /repo,
run every quick check with a small budget, expect exit 0 everywhere, undo."""
import subprocess, sys, os, re
R = {
 "afterfunc-noise": [("peer.go", "\t<-p.startupDelayTimer.C\n", "\t<-p.startupDelayTimer.C\n\tp.noise = time.AfterFunc(time.Hour, func() { logf(\"never\") })\n\ttime.AfterFunc(time.Second, func() { logf(\"[%s] peer object is one second old\", config.RemoteAddress) })\n"),
                     ("peer.go", "\tinHoldDown        bool\n", "\tinHoldDown        bool\n\tnoise             *time.Timer\n"),
                     ("peer.go", "\t\tp.startupDelayTimer.Stop()\n\t\tclose(p.doneCh)", "\t\tp.startupDelayTimer.Stop()\n\t\tp.noise.Reset(time.Minute)\n\t\tp.noise.Stop()\n\t\tclose(p.doneCh)")],
 "more-logging": [("fsm.go", "func (f *fsm) sendNotification(n *Notification) error {\n\tb, err := n.encode()\n", "func (f *fsm) sendNotification(n *Notification) error {\n\tlogf(\"[%s] sending NOTIFICATION %d/%d\", f.peer.config.RemoteAddress, n.Code, n.Subcode)\n\tb, err := n.encode()\n"),
                  ("fsm.go", "func (f *fsm) openSent() (fsmState, error) {\n", "func (f *fsm) openSent() (fsmState, error) {\n\tlogf(\"[%s] OPEN sent, waiting for the remote's\", f.peer.config.RemoteAddress)\n"),
                  ("fsm.go", "func (f *fsm) established() (fsmState, error) {\n", "func (f *fsm) established() (fsmState, error) {\n\tlogf(\"[%s] session up\", f.peer.config.RemoteAddress)\n")],
 "ka-quarter": [("fsm.go", "f.keepAliveInterval = f.holdTime / 3", "f.keepAliveInterval = f.holdTime / 4")],
 "cease-subcode-data": [("fsm.go", "\t\t\tcase <-f.closeCh:\n\t\t\t\tn := newNotification(NOTIF_CODE_CEASE, 0, nil)\n\t\t\t\tf.sendNotification(n) // nolint: errcheck\n\t\t\t\treturn disabledState, newNotificationError(n, true)\n\t\t\tcase <-f.holdTimer.C:\n\t\t\t\tn := newNotification(NOTIF_CODE_HOLD_TIMER_EXPIRED, 0, nil)\n\t\t\t\tf.sendNotification(n) // nolint: errcheck\n\t\t\t\treturn idleState, newNotificationError(n, true)\n\t\t\tcase <-f.keepAliveTimer.C:\n\t\t\t\terr := f.sendKeepAlive()\n\t\t\t\tif err != nil {\n\t\t\t\t\treturn idleState, fmt.Errorf(\"error sending keepAlive: %w\", err)\n\t\t\t\t}\n\t\t\t\tresetKATimerCh <- struct{}{}",
                                    "\t\t\tcase <-f.closeCh:\n\t\t\t\tn := newNotification(NOTIF_CODE_CEASE, 2, []byte{4, 'b', 'y', 'e', '!'})\n\t\t\t\tf.sendNotification(n) // nolint: errcheck\n\t\t\t\treturn disabledState, newNotificationError(n, true)\n\t\t\tcase <-f.holdTimer.C:\n\t\t\t\tn := newNotification(NOTIF_CODE_HOLD_TIMER_EXPIRED, 0, nil)\n\t\t\t\tf.sendNotification(n) // nolint: errcheck\n\t\t\t\treturn idleState, newNotificationError(n, true)\n\t\t\tcase <-f.keepAliveTimer.C:\n\t\t\t\terr := f.sendKeepAlive()\n\t\t\t\tif err != nil {\n\t\t\t\t\treturn idleState, fmt.Errorf(\"error sending keepAlive: %w\", err)\n\t\t\t\t}\n\t\t\t\tresetKATimerCh <- struct{}{}")],
 "badlen-data": [("fsm.go", "\t\t\tn := newNotification(NOTIF_CODE_MESSAGE_HEADER_ERR,\n\t\t\t\tNOTIF_SUBCODE_BAD_MESSAGE_LEN, nil)", "\t\t\tn := newNotification(NOTIF_CODE_MESSAGE_HEADER_ERR,\n\t\t\t\tNOTIF_SUBCODE_BAD_MESSAGE_LEN, []byte{header[16], header[17]})")],
 "bufio-reader": [("fsm.go", "func (f *fsm) read() {\n\tdefer close(f.readerDoneCh)\n", "func (f *fsm) read() {\n\tdefer close(f.readerDoneCh)\n\tbr := bufio.NewReaderSize(f.conn, 8192)\n"),
                  ("fsm.go", "_, err := io.ReadFull(f.conn, header)", "_, err := io.ReadFull(br, header)"),
                  ("fsm.go", "_, err = io.ReadFull(f.conn, body)", "_, err = io.ReadFull(br, body)"),
                  ("fsm.go", "import (\n\t\"context\"", "import (\n\t\"bufio\"\n\t\"context\"")],
 "rwmutex": [("server.go", "\tmu    sync.Mutex\n", "\tmu    sync.RWMutex\n"), ("server.go", "\t\tmu:            sync.Mutex{},\n", "\t\tmu:            sync.RWMutex{},\n"),
             ("server.go", "func (s *Server) GetPeer(ip netip.Addr) (PeerConfig, error) {\n\ts.mu.Lock()\n\tdefer s.mu.Unlock()", "func (s *Server) GetPeer(ip netip.Addr) (PeerConfig, error) {\n\ts.mu.RLock()\n\tdefer s.mu.RUnlock()"),
             ("server.go", "func (s *Server) ListPeers() []PeerConfig {\n\ts.mu.Lock()\n\tdefer s.mu.Unlock()", "func (s *Server) ListPeers() []PeerConfig {\n\ts.mu.RLock()\n\tdefer s.mu.RUnlock()")],
 "merged-admission": [("peer.go", "\t\t\tif p.inHoldDown {\n\t\t\t\tconn.Close()\n\t\t\t\tcontinue\n\t\t\t}\n", ""),
                      ("peer.go", "if p.fsms[in] != nil || p.fsmState[out] == establishedState {", "if p.inHoldDown || p.fsms[in] != nil || p.fsmState[out] == establishedState {")],
 "writeupdate-copy": [("fsm.go", "\t\t_, err := u.conn.Write(prependHeader(b, updateMessageType))", "\t\tcp := append([]byte(nil), b...)\n\t\t_, err := u.conn.Write(prependHeader(cp, updateMessageType))")],
 "onclose-before-timers": [("fsm.go", "\tf.cleanupConnAndReader()\n\tf.holdTimer.Stop()\n\tf.keepAliveTimer.Stop()\n\tf.peer.plugin.OnClose(f.peer.config)", "\tf.cleanupConnAndReader()\n\tf.peer.plugin.OnClose(f.peer.config)\n\tf.holdTimer.Stop()\n\tf.keepAliveTimer.Stop()")],
}
def sh(cmd): return subprocess.run(cmd, shell=True, capture_output=True, text=True)
names = sys.argv[1:] or sorted(R)
if sh("git -C /repo status --porcelain").stdout.strip(): print("refusing: /repo dirty"); sys.exit(2)
for name in names:
    try:
        for f, old, new in R[name]:
            p = os.path.join("/repo", f); s = open(p).read()
            if s.count(old) != 1: raise Exception("pattern in %s occurs %d times" % (f, s.count(old)))
            open(p, "w").write(s.replace(old, new))
        b = sh("cd /repo && go build ./... && go vet . && go test -vet=off -count=1 . | tail -1")
        if "ok" not in b.stdout: print("%-24s INVALID %s" % (name, (b.stdout + b.stderr)[-300:])); continue
        bad = []
        for pr in "C01 C02 C03 C04 C05 C06 C07 C08 C09 C10 C11 C12 C13 C14 C20".split():
            r = sh("cd /verif && VERIF_BUDGET=%s ./check %s quick" % (os.environ.get("BENIGN_BUDGET", "5"), pr))
            if r.returncode != 0:
                sig = re.findall(r"signature: (\S+)", r.stdout)
                bad.append("%s:exit%d%s" % (pr, r.returncode, (" [" + sig[0] + "]") if sig else " " + (r.stderr or r.stdout)[-200:].replace("\n", " | ")))
        print("%-24s %s" % (name, "no alarm in 15 checks" if not bad else "ALARMS: " + "  ".join(bad)), flush=True)
    except Exception as e:
        print("%-24s SKIP %s" % (name, e))
    finally:
        sh("git -C /repo checkout -- . ; rm -f /verif/replays/*.json")
