#!/usr/bin/env python3
"""Regenerates MANIFEST.json from the table below (run from /verif)."""
import json, os

T = "Trusts the instrumenter's rewrite rules, Go 1.26.8 synctest, the simulated transport (reliable stream; writes block only under the back-pressure fault C04 injects) and the harness' own RFC-derived codec and predicates."
CLAIMED = {
 "C05": ("deterministic simulation: hostile byte streams at every FSM state on a victim peer next to a well-behaved bystander, all exported decoders in the handler, concurrent API fuzz; panic capture, bystander/liveness/shutdown oracles",
         "Seeded exploration of hostile payloads (random bytes, typed random bodies, grammar-mutated OPENs and UPDATEs incl. extended-length/MP/add-path attributes with lying lengths, truncations, maximum-length messages, NOTIFICATION variants) x phase x direction x segmentation x schedule, with 1-3 API client tasks: any panic inside corebgp is captured with its frame; the bystander session must stay up with its keepalive cadence, every API call must return, a fresh peer must establish within idle-hold+connect-retry+1 s and Close must return leaving no goroutine that cannot terminate. Decoder inputs longer than one BGP message cannot arrive over a connection and are not reached.", T, "DESIGN.md 4 C05"),
 "C10": ("deterministic simulation: Close/DeletePeer/listener failure injected at drawn scheduler steps of the chaos workload, biased to hand-off windows; return-latency, connection-closure, Cease, callback and task-registry oracles; data-race clause under -race in pass-through mode",
         "Seeded exploration of the point at which shutdown lands relative to ~10 goroutines per peer: uniformly over virtual time plus a step offset, or a few steps after an interesting event (dial accepted but not handed over, OPEN just written, KEEPALIVE just written, OnEstablished executing, two live connections). At return: latency <= 1 s virtual, every handed-over connection closed, Cease last on every connection that had sent its OPEN and been quiescent since, callbacks closed and silent, no corebgp goroutine left once runnable ones have finished; Serve's result and repeated Close/Serve are checked. The data-race clause re-runs a concurrent workload with the race detector (not exactly replayable; see level_note).", T + " The race clause depends on the race detector's happens-before analysis of the executed paths; its schedule is not tape-controlled.", "DESIGN.md 4 C10"),
 "C11": ("deterministic simulation in virtual time: fault-sequence prefixes (refuse, stall, FIN/RST/Cease at each state, inbound sessions) then a well-behaved remote; transport dial timestamps vs idle-hold/connect-retry",
         "Seeded exploration of fault sequences x (idle-hold, connect-retry) settings x active/passive: once faults stop the session must be Established within idle-hold + connect-retry + 1 s; consecutive refused attempts started from Idle are spaced by at least one idle-hold time and at most max(idle-hold, refusal time)+1 s; a stalled connect is abandoned exactly at connect-retry and followed by a new attempt; after an inbound session of an active peer ends dialling resumes within 1 s and a new inbound connection is admitted; a passive peer never dials; the WithDialerControl callback fires once per attempt.", T, "DESIGN.md 4 C11"),
 "C12": ("deterministic simulation in virtual time: protocol-error / non-damping event histories with drawn gaps (incl. errors coinciding with collision resolution or with the other connection becoming Established, and a slow user Logger that keeps the peer manager busy), executable hold-down model (60 s, doubling, 300 s cap, 300 s amnesia) vs dial records and inbound refusals",
         "Seeded exploration of histories of 1-8 events (every way to receive or provoke a non-Cease NOTIFICATION from every state and direction, interleaved with Cease/FIN/RST) separated by 0-700 s: the model predicts each hold-down window; no dial may occur inside it, inbound connections offered inside it (also 5 ms before its end) must be closed with zero bytes, a dial (active) or admission (passive) must follow within 1 s of its end, non-damping events must leave the model state untouched, and a well-behaved remote must finally establish. All delay values 60/120/240/300 s and the amnesia reset are reached.", T, "DESIGN.md 4 C12"),
 "C13": ("deterministic simulation: peer sets x phases x (source, destination, listener) probes at quiescent points, admission predicate vs bytes/EOF on the dialling side",
         "Seeded exploration of 1-4 peers (IPv4/IPv6, with/without local address, active/passive), the target peer in one of ten phases (idle, dial pending, outbound OpenSent/OpenConfirm, inbound in progress, Established either way, held down, just deleted) and inbound connections from configured, other-peer, unconfigured, IPv6 and v4-mapped sources to every local address (three per family, one extending the text of another) through specific and wildcard listeners: admitted connections must receive an OPEN, all others must be closed with zero bytes written, no plugin callback and no effect on any existing connection.", T, "DESIGN.md 4 C13"),
 "C20": ("deterministic simulation: concurrent registry histories stamped with event sequence numbers and checked with porcupine against a sequential map model; validation grid; start/stop behaviour observed on the simulated network",
         "Seeded exploration of 2-4 concurrent client tasks x 3-10 operations over 3 keys with Serve/Close at drawn points under an adversarial schedule (the mutex hand-off order is the scheduler's choice): histories must be linearizable (porcupine; Unknown is counted, never reported), every invalid configuration of the grid must be rejected, dials are attributed to peers through their own dialer-control closure (target, source address, never before Serve, never after Close, never for passive peers), and a sequential phase checks start-on-add and stop-on-delete. NewServer's router-id check rides along.", T, "DESIGN.md 4 C20"),
 "C01": ("deterministic simulation: multi-peer chaos workload (collisions, per-connection deviations, churn, stalls, slow user Logger, free-running WriteUpdate callers), incremental callback automaton with task attribution",
         "Seeded exploration of interleavings of remote connects, dials, OPEN/KEEPALIVE/UPDATE/NOTIFICATION arrivals, FIN/RST, timer expiries, stall faults and AddPeer/DeletePeer/Close over the real peer manager, FSMs, readers and keepalive managers; after every event a per-plugin automaton (Down/InEstablished/Up/InHandler/InClose) with task and connection attribution, GetCapabilities-per-OPEN accounting and OnOpenMessage-per-connection accounting is checked, and at DeletePeer/Close return every OnEstablished must have its OnClose.", T, "DESIGN.md 4 C01"),
 "C03": ("deterministic simulation: tagged UPDATE/KEEPALIVE sequences cut into adversarial TCP segments, delivered-vs-sent sequence oracle, handler variants",
         "Seeded exploration of message sequences x segmentations x reader/FSM/handler schedules (incl. handler stalls in virtual time, WriteUpdate inside the handler, handler-returned NOTIFICATION): delivered bodies must equal the sent sequence (exact while the session lives), lie inside the OnEstablished..OnClose window, never be modified afterwards or alias each other; a handler NOTIFICATION must appear verbatim and end the session.", T, "DESIGN.md 4 C03"),
 "C04": ("deterministic simulation: concurrent writer tasks vs keepalive timers vs teardown/re-establishment vs transport back-pressure (the remote stops reading), strict frame parser and per-connection multiset/order accounting of WriteUpdate calls",
         "Seeded exploration of writer interleavings (0-4 writer tasks per session, calls inside OnEstablished and the handler, stale handles after FIN/RST/hold expiry/handler NOTIFICATION/Close, re-established sessions) with a schedule point before every transport write: every outbound stream must parse as whole well-formed messages, every nil-returning WriteUpdate appears exactly once on its own session's connection in per-writer order, no UPDATE appears from nowhere or on another connection, calls after OnClose began fail, no call blocks in virtual time.", T, "DESIGN.md 4 C04"),
 "C06": ("deterministic simulation in virtual time: hold-time grid x remote traffic patterns x local write patterns, wire timestamps vs min(local, remote)",
         "Seeded exploration over the hold-time grid (0, 3..65535 s - an 18-hour hold time costs microseconds) x stage (OpenConfirm/Established) x remote cadence (H/3, H-eps, H+eps, random, last message just before expiry) x local WriteUpdate pattern with zero-time CPU: the OPEN carries the configured hold time, Hold Timer Expired is never sent earlier than H after the last received message and is sent within H+1 s of silence, gaps between sent KEEPALIVE/UPDATE never exceed H/3+1 s, and with H=0 a 24 h silence changes nothing and UPDATEs still flow.", T, "DESIGN.md 4 C06"),
 "C07": ("deterministic simulation: both connections driven to the collision by a scripted remote in every arrival order, dominance oracle on which connection gets Cease/EOF; kill-vs-transition race forced by the schedule",
         "Seeded exploration of (identifier order, AS order) x which connection reaches OpenConfirm second (sequential, concurrent) x the race between the peer manager's kill and the victim's own Established request x the four 'one Established first' cases, under adversarial goroutine schedules in every reaction window: exactly the connection initiated by the dominant speaker survives, the loser's last message is a Cease, the survivor is untouched and becomes Established on the remote's KEEPALIVE. All dominance x order cells are counted as probes and are non-zero.", T, "DESIGN.md 4 C07"),
 "C02": ("deterministic simulation: grammar-generated and mutated OPEN bodies against a quiescent OpenSent FSM, independent acceptability predicate as oracle",
         "Seeded exploration of OPEN bodies x configurations x directions x TCP segmentations x goroutine schedules through the real reader/FSM/plugin path; the reaction on the wire (KEEPALIVE vs. exactly one applicable NOTIFICATION then close), OnOpenMessage arguments and OnEstablished are compared with a predicate written from the property statement. Boundary values of every field and every structural corruption class are hit many times per run (see probes); the input space is sampled, not enumerated.", T, "DESIGN.md 4 C02"),
 "C08": ("deterministic simulation: faulty headers (every marker octet, boundary lengths, unknown types) after k good messages in every state, adversarial segmentation; plugin-returned NOTIFICATION fidelity",
         "Seeded exploration: streams of well-formed messages followed by one faulty header and a trailing UPDATE are delivered in tape-chosen segments to a real FSM in OpenSent/OpenConfirm/Established; the oracle demands that earlier messages took effect, exactly one NOTIFICATION (1,1)/(1,2)/(1,3 with the type octet) is sent, the connection is closed and the trailing UPDATE is never delivered. NOTIFICATIONs returned by the plugin with boundary data lengths must arrive byte-exact. Boundaries are favoured by the generator; the header space is sampled.", T, "DESIGN.md 4 C08"),
 "C14": ("deterministic simulation: configuration and capability-list grid, strict independent OPEN parser on the first frame of every connection across reconnects",
         "Seeded exploration of (local AS, hold time, router id, per-call plugin capability lists incl. code 65 and values > 255 bytes) over successive connections in both directions; the first frame of each connection is parsed by an independent strict parser and compared field by field with the configuration and with the capability list of the GetCapabilities call that preceded it. Unrepresentable lists must produce no bytes or a well-formed OPEN.", T, "DESIGN.md 4 C14"),
 # id: (technique, level text, level note, design ref)
 "C09": ("deterministic simulation: full (state x message x direction) reaction table against the instrumented FSM, quiescent-point wire oracle",
         "Seeded exploration: every cell of {OpenSent,OpenConfirm,Established} x {OPEN,UPDATE,NOTIFICATION,KEEPALIVE,FIN,RST} x {in,out} is driven end-to-end through the real FSM under a tape-controlled goroutine schedule and TCP segmentation; the reaction observed on the wire and in the plugin log at the next quiescent point is compared with the RFC 4271 8.2.2 / RFC 6608 table. Half of the FIN/RST runs end the stream inside a truncated message (cut in the header, behind it or in the body), which must still end silently and deliver nothing. All 36 cells are hit thousands of times per quick run; NOTIFICATION contents and schedules are sampled, so this is evidence, not proof.",
         "Trusts the instrumenter's rewrite rules, Go 1.26.8 synctest, the simulated transport (reliable stream; writes block only under the back-pressure fault C04 injects) and the harness' own RFC-derived codec.", "DESIGN.md 4 C09"),
}

PENDING = "check not built yet in this session (planned: deterministic simulation, see DESIGN.md section 4)"
NA = {
 "C15": "pure codec round-trip function of a value / byte string: no schedule, clock, fault or interleaving to simulate (DESIGN.md 5)",
 "C16": "UpdateDecoder.Decode is a pure function of one byte slice and nil-returning callbacks: nothing for a scheduler or fault injector to vary (DESIGN.md 5)",
 "C17": "RFC 7606 error classification is a pure function of a byte slice / error tree (DESIGN.md 5)",
 "C18": "typed path-attribute decoders are pure functions of (flags, bytes) (DESIGN.md 5)",
 "C19": "prefix / add-path / MP_REACH / MP_UNREACH decoders are pure functions of a byte slice (DESIGN.md 5)",
}

def main():
    ids = [json.loads(l)["id"] for l in open("properties.jsonl")]
    checks, na = [], []
    for i in ids:
        if i in CLAIMED:
            tech, text, note, ref = CLAIMED[i]
            checks.append({
                "property_id": i,
                "quick_cmd": "./check %s quick" % i,
                "thorough_cmd": "./check %s thorough" % i,
                "evidence_file": "evidence/%s.json" % i,
                "replay_cmd_template": "./check %s --replay {path}" % i,
                "engine": "corebgp-dst",
                "level_claimed": {"category": "exploration", "text": text, "design_ref": ref},
                "level_note": note,
                "technique": tech,
            })
        else:
            na.append({"property_id": i, "reason": NA.get(i, PENDING)})
    m = {
        "version": 1,
        "setup_cmd": "./check setup",
        "hooks": {
            "guard": "verif",
            "enable": "no in-tree hooks: every check copies /repo's working tree to a scratch directory, rewrites it mechanically with cmd/instrument (select/chan/go/sync/map-range/dial/timer -> simrt) and builds the harness against that copy (DESIGN.md 2.1-2.2)",
            "baseline_off_cmd": "cd /repo && go test -vet=off -count=1 ./...",
            "source_commits": [],
            "add_only": True,
        },
        "engines": [{
            "name": "corebgp-dst", "path": "check",
            "serves_properties": [c["property_id"] for c in checks],
            "kind_free_text": "deterministic simulation with fault injection: tape-driven serialised goroutine scheduler (simrt) over real goroutines inside a testing/synctest bubble, simulated TCP transport and remote BGP speakers, seeded search with replay and tape minimisation",
        }],
        "checks": checks,
        "not_applicable": na,
        "notes": "Exit codes: 0 held, 1 VIOLATION (confirmed by replay in a fresh process), 2 machinery trouble. known_findings.json lists genuine defects (fixed: entries suppress nothing).",
    }
    json.dump(m, open("MANIFEST.json", "w"), indent=1)
    print("claimed:", [c["property_id"] for c in checks])

main()
