#!/bin/bash
# Regenerates every evidence file with the quick tier against /repo's working tree and validates the schemas.
cd "$(dirname "$0")/.." || exit 2
rc=0
for p in C01 C02 C03 C04 C05 C06 C07 C08 C09 C10 C11 C12 C13 C14 C20; do
  ./check $p quick | tail -1 || rc=1
done
python3-vt - <<'PY'
import json, jsonschema, glob
sch=json.load(open('/root/.vp/EVIDENCE.schema.json'))
for f in sorted(glob.glob('evidence/*.json')):
    jsonschema.validate(json.load(open(f)), sch)
jsonschema.validate(json.load(open('MANIFEST.json')), json.load(open('/root/.vp/MANIFEST.schema.json')))
print('schemas ok:', len(glob.glob('evidence/*.json')), 'evidence files')
PY
exit $rc
