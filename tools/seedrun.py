#!/usr/bin/env python3
"""Evaluate an independently written breaking change against the checks.
usage: tools/seedrun.py <seed-dir> <n> <PROP> [PROP...]
 <seed-dir>/patch<n>.diff, demo<n>_test.go
Steps: (1) in a scratch worktree: existing suite with patch passes, demo fails with patch, passes without;
       (2) apply the patch to /repo, run ./check PROP quick for each PROP, undo."""
import subprocess, sys, os, json, re, tempfile, shutil

def sh(cmd, **kw):
    return subprocess.run(cmd, shell=True, capture_output=True, text=True, **kw)

GOENV = "GOFLAGS=-mod=mod GOPROXY=off GOSUMDB=off "

def main():
    d, n, props = sys.argv[1], sys.argv[2], sys.argv[3:]
    patch = os.path.abspath(os.path.join(d, "patch%s.diff" % n))
    demo = os.path.abspath(os.path.join(d, "demo%s_test.go" % n))
    res = {"patch": patch, "props": props}
    if not os.environ.get("SEED_SCRATCH") and sh("git -C /repo status --porcelain").stdout.strip():
        print("refusing: /repo dirty"); sys.exit(2)
    wt = tempfile.mkdtemp(prefix="seedwt.", dir="/tmp")
    os.rmdir(wt)
    try:
        sh("git -C /repo worktree add --detach %s HEAD -q" % wt)
        shutil.copy(demo, os.path.join(wt, "zz_demo_test.go"))
        extra = os.environ.get("DEMO_FLAGS", "")
        r = sh("cd %s && %s go test -vet=off -count=1 %s -run . -timeout 300s . 2>&1 | tail -5" % (wt, GOENV, extra))
        res["demo_without_patch"] = "pass" if re.search(r"^ok\s", r.stdout, re.M) else "FAIL: " + r.stdout[-300:]
        a = sh("cd %s && git apply %s" % (wt, patch))
        if a.returncode != 0:
            res["apply"] = "FAILED " + a.stderr[-300:]
            print(json.dumps(res, indent=1)); return
        os.remove(os.path.join(wt, "zz_demo_test.go"))
        r = sh("cd %s && %s go build ./... && %s go vet . 2>&1 | tail -3; %s go test -vet=off -count=1 . 2>&1 | tail -2" % (wt, GOENV, GOENV, GOENV))
        res["suite_with_patch"] = "pass" if re.search(r"^ok\s", r.stdout, re.M) else "FAIL: " + (r.stdout + r.stderr)[-300:]
        shutil.copy(demo, os.path.join(wt, "zz_demo_test.go"))
        r = sh("cd %s && %s go test -vet=off -count=1 %s -run . -timeout 300s . 2>&1 | tail -12" % (wt, GOENV, extra))
        res["demo_with_patch"] = "fails (as it should)" if not re.search(r"^ok\s", r.stdout, re.M) else "PASSES (demo does not show the break)"
    finally:
        sh("git -C /repo worktree remove --force %s" % wt)
    # now the checks
    here = os.path.dirname(os.path.dirname(os.path.abspath(__file__)))
    scratch = os.environ.get("SEED_SCRATCH")
    if scratch:
        # leave /repo alone (something else is using it): the checks build from a scratch worktree
        wt2 = tempfile.mkdtemp(prefix="seedwt2.", dir="/tmp"); os.rmdir(wt2)
        sh("git -C /repo worktree add --detach %s HEAD -q" % wt2)
        a = sh("git -C %s apply %s" % (wt2, patch))
        try:
            for pr in props:
                r = sh("cd %s && VERIF_REPO=%s VERIF_BUDGET=%s ./check %s quick" % (here, wt2, os.environ.get("SEED_BUDGET", "25"), pr))
                sig = re.findall(r"signature: (\S+)", r.stdout)
                res["check_" + pr] = {0: "MISSED", 1: "caught", 2: "TROUBLE"}.get(r.returncode, str(r.returncode)) + ((" [" + sig[0] + "]") if sig else "")
                if r.returncode == 2:
                    res["check_" + pr] += " " + (r.stderr or r.stdout)[-400:]
        finally:
            sh("git -C /repo worktree remove --force %s; rm -f %s/replays/*.json" % (wt2, here))
        print(json.dumps(res, indent=1)); return
    a = sh("git -C /repo apply %s" % patch)
    try:
        for pr in props:
            r = sh("cd /verif && VERIF_BUDGET=%s ./check %s quick" % (os.environ.get("SEED_BUDGET", "25"), pr))
            sig = re.findall(r"signature: (\S+)", r.stdout)
            res["check_" + pr] = {0: "MISSED", 1: "caught", 2: "TROUBLE"}.get(r.returncode, str(r.returncode)) + ((" [" + sig[0] + "]") if sig else "")
            if r.returncode == 2:
                res["check_" + pr] += " " + (r.stderr or r.stdout)[-400:]
    finally:
        sh("git -C /repo checkout -- . && rm -f /verif/replays/*.json")
    print(json.dumps(res, indent=1))

main()
