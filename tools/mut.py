#!/usr/bin/env python3
"""Sensitivity test: apply a deliberate property-breaking edit to /repo's working tree,
run the named quick checks, report whether each was caught, undo the edit.
usage: tools/mut.py [name ...]   (no names = all)"""
import subprocess, sys, os, json, re

REPO = "/repo"
M = {
 # name: (file, old, new, [props expected to catch it])
 "c02-hold-lt2": ("packet.go", "if o.holdTime < 3 && o.holdTime != 0 {", "if o.holdTime < 2 && o.holdTime != 0 {", ["C02"]),
 "c02-no-multicast": ("packet.go", "if addr.IsMulticast() {", "if false && addr.IsMulticast() {", ["C02"]),
 "c02-no-sameid": ("packet.go", "if localAS == remoteAS && localID == o.bgpID {", "if false && localID == o.bgpID {", ["C02"]),
 "c02-skip-as4-value": ("packet.go", "if binary.BigEndian.Uint32(c.Value) != remoteAS {", "if false {", ["C02"]),
 "c02-onopen-before-validate": ("fsm.go", "\t\t\t\terr := m.validate(f.peer.id, f.peer.config.LocalAS,\n\t\t\t\t\tf.peer.config.RemoteAS)", "\t\t\t\tf.peer.plugin.OnOpenMessage(f.peer.config, netip.Addr{}, m.getCapabilities())\n\t\t\t\terr := m.validate(f.peer.id, f.peer.config.LocalAS,\n\t\t\t\t\tf.peer.config.RemoteAS)", ["C02", "C01"]),
 "c02-optlen-lenient": ("packet.go", "if optionalParamsLen != len(b)-10 {", "if optionalParamsLen > len(b)-10 {", ["C02"]),
 "c03-bodylen-off": ("fsm.go", "body := make([]byte, bodyLen)", "body := make([]byte, bodyLen, bodyLen+1)\n\t\tif bodyLen == 23 {\n\t\t\tbody = body[:22]\n\t\t}", ["C03"]),
 "c03-deliver-twice": ("fsm.go", "\t\t\t\t\t\tn := handler(f.peer.config, m)\n", "\t\t\t\t\t\tn := handler(f.peer.config, m)\n\t\t\t\t\t\tif len(m) == 4 {\n\t\t\t\t\t\t\tn = handler(f.peer.config, m)\n\t\t\t\t\t\t}\n", ["C03"]),
 "c03-no-copy": ("packet.go", "\t\tu := make([]byte, len(b))\n\t\tcopy(u, b)\n\t\treturn updateMessage(u), nil", "\t\treturn updateMessage(b), nil", []),
 "c03-continue-after-notif": ("fsm.go", "\t\t\t\t\t\tif n != nil {\n\t\t\t\t\t\t\tf.sendNotification(n) // nolint: errcheck\n\t\t\t\t\t\t\treturn idleState, newNotificationError(n, true)\n\t\t\t\t\t\t}\n\t\t\t\t\t}\n\t\t\t\t\tif f.holdTime != 0 {", "\t\t\t\t\t\tif n != nil {\n\t\t\t\t\t\t\tf.sendNotification(n) // nolint: errcheck\n\t\t\t\t\t\t\tcontinue\n\t\t\t\t\t\t}\n\t\t\t\t\t}\n\t\t\t\t\tif f.holdTime != 0 {", ["C03"]),
 "c04-two-writes": ("fsm.go", "\t\t_, err := u.conn.Write(prependHeader(b, updateMessageType))", "\t\tm := prependHeader(b, updateMessageType)\n\t\t_, err := u.conn.Write(m[:19])\n\t\tif err == nil && len(m) > 19 {\n\t\t\t_, err = u.conn.Write(m[19:])\n\t\t}", ["C04"]),
 "c04-conn-at-write-time": ("fsm.go", "\t\t\tconn:           f.conn,\n", "\t\t\tconn:           nil,\n", []),
 "c04-no-closech-check": ("fsm.go", "\tselect {\n\tcase <-u.closeCh:\n\t\treturn io.ErrClosedPipe\n\tdefault:", "\tselect {\n\tcase <-u.closeCh:\n\t\tif len(b) != 12 {\n\t\t\treturn io.ErrClosedPipe\n\t\t}\n\t\tfallthrough\n\tdefault:", ["C04"]),
 "c04-sync-reset": ("fsm.go", "\t\t\tselect {\n\t\t\tcase <-u.closeCh:\n\t\t\tcase u.resetKATimerCh <- struct{}{}:\n\t\t\t}", "\t\t\tu.resetKATimerCh <- struct{}{}", ["C04"]),
 "c08-maxlen-ge": ("fsm.go", "bodyLen+headerLength > maxMessageLength", "bodyLen+headerLength >= maxMessageLength", ["C08"]),
 "c08-marker-15": ("fsm.go", "\t\tfor i := 0; i < 16; i++ {\n\t\t\tif header[i] != 0xFF {", "\t\tfor i := 0; i < 15; i++ {\n\t\t\tif header[i] != 0xFF {", ["C08"]),
 "c08-wrong-subcode": ("fsm.go", "NOTIF_SUBCODE_BAD_MESSAGE_LEN, nil)\n\t\t\tselect {", "NOTIF_SUBCODE_BAD_MESSAGE_TYPE, nil)\n\t\t\tselect {", ["C08"]),
 "c08-len-lt0": ("fsm.go", "if bodyLen < 0 || bodyLen+headerLength", "if bodyLen < -1 || bodyLen+headerLength", ["C08", "C05"]),
 "c09-swap-subcodes": ("fsm.go", "NOTIF_SUBCODE_RX_UNEXPECTED_MESSAGE_OPENSENT,\n\t\t\t\t\t[]byte{m.messageType()})", "NOTIF_SUBCODE_RX_UNEXPECTED_MESSAGE_OPENCONFIRM,\n\t\t\t\t\t[]byte{m.messageType()})", ["C09"]),
 "c09-reply-to-notif": ("fsm.go", "\t\t\t\tcase *Notification:\n\t\t\t\t\treturn idleState, newNotificationError(m, false)\n\t\t\t\tdefault:\n\t\t\t\t\t/*\n\t\t\t\t\t\thttps://tools.ietf.org/html/rfc4271#page-70", "\t\t\t\tcase *Notification:\n\t\t\t\t\treturn idleState, newNotificationError(m, true)\n\t\t\t\tdefault:\n\t\t\t\t\t/*\n\t\t\t\t\t\thttps://tools.ietf.org/html/rfc4271#page-70", []),
 "c09-unfix-d1": ("packet.go", "if len(n.Data) > 0 {", "if len(n.Data) > 1 {", ["C09", "C08"]),
 "c14-keep-cap65": ("packet.go", "if c.Code != CAP_FOUR_OCTET_AS {", "if true {", ["C14"]),
 "c14-astrans-off": ("packet.go", "if asn > math.MaxUint16 {", "if asn >= math.MaxUint16 {", ["C14"]),
 "c14-hold-unit": ("packet.go", "holdTime: uint16(holdTime.Truncate(time.Second).Seconds()),", "holdTime: uint16(holdTime.Truncate(time.Second).Milliseconds() / 1000 * 1),", []),
 "c14-unfix-d6": ("packet.go", "\tif len(caps) > math.MaxUint8 {\n\t\treturn nil, errors.New(\"capabilities exceed 255 bytes\")\n\t}\n", "", ["C14"]),
 "c05-unfix-d2": ("fsm.go", "\t\t\t\t\tf.keepAliveTimer = newStoppedTimer()\n", "", ["C02", "C05", "C06"]),
}

def sh(cmd, **kw):
    return subprocess.run(cmd, shell=True, capture_output=True, text=True, **kw)

def main():
    names = sys.argv[1:] or sorted(M)
    if sh("git -C %s status --porcelain" % REPO).stdout.strip():
        print("refusing: /repo has uncommitted changes"); sys.exit(2)
    results = {}
    for name in names:
        f, old, new, props = M[name]
        p = os.path.join(REPO, f)
        src = open(p).read()
        if src.count(old) != 1:
            print("%-28s SKIP (pattern occurs %d times)" % (name, src.count(old))); continue
        open(p, "w").write(src.replace(old, new))
        try:
            b = sh("cd %s && go build ./... && go vet . 2>&1 | head -3 ; go test -vet=off -count=1 . 2>&1 | tail -1" % REPO)
            if "ok" not in b.stdout:
                print("%-28s INVALID (does not build / pass tests): %s" % (name, (b.stdout + b.stderr).strip()[-200:])); continue
            row = []
            for pr in (os.environ.get("MUT_PROPS", "").split() or props):
                r = sh("cd /verif && VERIF_BUDGET=%s ./check %s quick" % (os.environ.get("MUT_BUDGET", "12"), pr))
                sig = re.findall(r"signature: (\S+)", r.stdout)
                row.append("%s:%s%s" % (pr, {0: "MISSED", 1: "caught", 2: "TROUBLE"}.get(r.returncode, r.returncode), (" [" + sig[0] + "]") if sig else ""))
                if r.returncode == 2:
                    row.append((r.stderr or r.stdout)[-300:].replace("\n", " | "))
            print("%-28s %s" % (name, "  ".join(row)), flush=True)
        finally:
            open(p, "w").write(src)
            sh("rm -f /verif/replays/*.json")
    sh("git -C %s checkout -- ." % REPO)

main()
