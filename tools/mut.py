#!/usr/bin/env python3
"""Sensitivity test: apply a deliberate property-breaking edit to /repo's working tree,
run the named quick checks, report whether each was caught, undo the edit.
usage: tools/mut.py [name ...]   (no names = all)"""
import subprocess, sys, os, json, re

REPO = "/repo"
M = {
 # name: (file, old, new, [props expected to catch it])
 "c02-hold-lt2": ("packet.go", "if o.holdTime < 3 && o.holdTime != 0 {", "if o.holdTime < 2 && o.holdTime != 0 {", ["C02"]),
 "c02-no-multicast": ("packet.go", "if addr.IsMulticast() {", "if false && addr.IsMulticast() {", ["C02"]),
 "c02-no-sameid": ("packet.go", "if localAS == remoteAS && localID == o.bgpID {", "if false && localID == o.bgpID {", ["C02"]),
 "c02-skip-as4-value": ("packet.go", "if binary.BigEndian.Uint32(c.Value) != remoteAS {", "if false {", ["C02"]),
 "c02-onopen-before-validate": ("fsm.go", "\t\t\t\terr := m.validate(f.peer.id, f.peer.config.LocalAS,\n\t\t\t\t\tf.peer.config.RemoteAS)", "\t\t\t\tf.peer.plugin.OnOpenMessage(f.peer.config, netip.Addr{}, m.getCapabilities())\n\t\t\t\terr := m.validate(f.peer.id, f.peer.config.LocalAS,\n\t\t\t\t\tf.peer.config.RemoteAS)", ["C02", "C01"]),
 "c02-optlen-lenient": ("packet.go", "if optionalParamsLen != len(b)-10 {", "if optionalParamsLen > len(b)-10 {", ["C02"]),
 "c03-bodylen-off": ("fsm.go", "body := make([]byte, bodyLen)", "body := make([]byte, bodyLen, bodyLen+1)\n\t\tif bodyLen == 23 {\n\t\t\tbody = body[:22]\n\t\t}", ["C03"]),
 "c03-deliver-twice": ("fsm.go", "\t\t\t\t\t\tn := handler(f.peer.config, m)\n", "\t\t\t\t\t\tn := handler(f.peer.config, m)\n\t\t\t\t\t\tif len(m) == 4 {\n\t\t\t\t\t\t\tn = handler(f.peer.config, m)\n\t\t\t\t\t\t}\n", ["C03"]),
 "c03-no-copy": ("packet.go", "\t\tu := make([]byte, len(b))\n\t\tcopy(u, b)\n\t\treturn updateMessage(u), nil", "\t\treturn updateMessage(b), nil", []),
 "c03-continue-after-notif": ("fsm.go", "\t\t\t\t\t\tif n != nil {\n\t\t\t\t\t\t\tf.sendNotification(n) // nolint: errcheck\n\t\t\t\t\t\t\treturn idleState, newNotificationError(n, true)\n\t\t\t\t\t\t}\n\t\t\t\t\t}\n\t\t\t\t\tif f.holdTime != 0 {", "\t\t\t\t\t\tif n != nil {\n\t\t\t\t\t\t\tf.sendNotification(n) // nolint: errcheck\n\t\t\t\t\t\t\tcontinue\n\t\t\t\t\t\t}\n\t\t\t\t\t}\n\t\t\t\t\tif f.holdTime != 0 {", ["C03"]),
 "c04-two-writes": ("fsm.go", "\t\t_, err := u.conn.Write(prependHeader(b, updateMessageType))", "\t\tm := prependHeader(b, updateMessageType)\n\t\t_, err := u.conn.Write(m[:19])\n\t\tif err == nil && len(m) > 19 {\n\t\t\t_, err = u.conn.Write(m[19:])\n\t\t}", ["C04"]),
 "c04-conn-at-write-time": ("fsm.go", "\t\t\tconn:           f.conn,\n", "\t\t\tconn:           nil,\n", []),
 "c04-no-closech-check": ("fsm.go", "\tselect {\n\tcase <-u.closeCh:\n\t\treturn io.ErrClosedPipe\n\tdefault:", "\tselect {\n\tcase <-u.closeCh:\n\t\tif len(b) != 12 {\n\t\t\treturn io.ErrClosedPipe\n\t\t}\n\t\tfallthrough\n\tdefault:", ["C04"]),
 "c04-sync-reset": ("fsm.go", "\t\t\tselect {\n\t\t\tcase <-u.closeCh:\n\t\t\tcase u.resetKATimerCh <- struct{}{}:\n\t\t\t}", "\t\t\tu.resetKATimerCh <- struct{}{}", ["C04"]),
 "c08-maxlen-ge": ("fsm.go", "bodyLen+headerLength > maxMessageLength", "bodyLen+headerLength >= maxMessageLength", ["C08"]),
 "c08-marker-15": ("fsm.go", "\t\tfor i := 0; i < 16; i++ {\n\t\t\tif header[i] != 0xFF {", "\t\tfor i := 0; i < 15; i++ {\n\t\t\tif header[i] != 0xFF {", ["C08"]),
 "c08-wrong-subcode": ("fsm.go", "NOTIF_SUBCODE_BAD_MESSAGE_LEN, nil)\n\t\t\tselect {", "NOTIF_SUBCODE_BAD_MESSAGE_TYPE, nil)\n\t\t\tselect {", ["C08"]),
 "c08-len-lt0": ("fsm.go", "if bodyLen < 0 || bodyLen+headerLength", "if bodyLen < -1 || bodyLen+headerLength", ["C08", "C05"]),
 "c09-swap-subcodes": ("fsm.go", "NOTIF_SUBCODE_RX_UNEXPECTED_MESSAGE_OPENSENT,\n\t\t\t\t\t[]byte{m.messageType()})", "NOTIF_SUBCODE_RX_UNEXPECTED_MESSAGE_OPENCONFIRM,\n\t\t\t\t\t[]byte{m.messageType()})", ["C09"]),
 "c09-reply-to-notif": ("fsm.go", "\t\t\t\tcase *Notification:\n\t\t\t\t\treturn idleState, newNotificationError(m, false)\n\t\t\t\tdefault:\n\t\t\t\t\t/*\n\t\t\t\t\t\thttps://tools.ietf.org/html/rfc4271#page-70", "\t\t\t\tcase *Notification:\n\t\t\t\t\treturn idleState, newNotificationError(m, true)\n\t\t\t\tdefault:\n\t\t\t\t\t/*\n\t\t\t\t\t\thttps://tools.ietf.org/html/rfc4271#page-70", []),
 "c09-unfix-d1": ("packet.go", "if len(n.Data) > 0 {", "if len(n.Data) > 1 {", ["C09", "C08"]),
 "c14-keep-cap65": ("packet.go", "if c.Code != CAP_FOUR_OCTET_AS {", "if true {", ["C14"]),
 "c14-astrans-off": ("packet.go", "if asn > math.MaxUint16 {", "if asn >= math.MaxUint16 {", ["C14"]),
 "c14-hold-unit": ("packet.go", "holdTime: uint16(holdTime.Truncate(time.Second).Seconds()),", "holdTime: uint16(holdTime.Truncate(time.Second).Milliseconds() / 1000 * 1),", []),
 "c14-unfix-d6": ("packet.go", "\tif len(caps) > math.MaxUint8 {\n\t\treturn nil, errors.New(\"capabilities exceed 255 bytes\")\n\t}\n", "", ["C14"]),
 "c05-unfix-d2": ("fsm.go", "\t\t\t\t\tf.keepAliveTimer = newStoppedTimer()\n", "", ["C02", "C05", "C06"]),
 # ---- wave 2 ----
 "c01-no-disable-other": ("peer.go", "\tcase t.to == establishedState:\n\t\t// disable the other fsm\n\t\tp.disableFSM(other(i))\n", "\tcase t.to == establishedState:\n\t\t// disable the other fsm\n", ["C01", "C07"]),
 "c01-accept-in-while-established": ("peer.go", "if p.fsms[in] != nil || p.fsmState[out] == establishedState {", "if p.fsms[in] != nil {", ["C01", "C07", "C13"]),
 "c01-skip-onclose-disabled": ("fsm.go", "\tf.keepAliveTimer.Stop()\n\tf.peer.plugin.OnClose(f.peer.config)\n\treturn to, err", "\tf.keepAliveTimer.Stop()\n\tif to != disabledState {\n\t\tf.peer.plugin.OnClose(f.peer.config)\n\t}\n\treturn to, err", ["C01", "C10"]),
 "c01-getcaps-twice": ("fsm.go", "\tcapabilities := f.peer.plugin.GetCapabilities(f.peer.config)\n", "\tcapabilities := f.peer.plugin.GetCapabilities(f.peer.config)\n\tif f.peer.options.passive {\n\t\tcapabilities = f.peer.plugin.GetCapabilities(f.peer.config)\n\t}\n", ["C01"]),
 "c06-ka-half": ("fsm.go", "f.keepAliveInterval = f.holdTime / 3", "f.keepAliveInterval = f.holdTime / 2", ["C06"]),
 "c06-min-to-max": ("fsm.go", "if f.peer.options.holdTime < f.holdTime {", "if f.peer.options.holdTime > f.holdTime {", ["C06"]),
 "c06-no-restart-on-update": ("fsm.go", "\t\t\t\t\tif f.holdTime != 0 {\n\t\t\t\t\t\tf.drainAndResetHoldTimer()\n\t\t\t\t\t}\n\t\t\t\t\tcontinue\n\t\t\t\tdefault:", "\t\t\t\t\tcontinue\n\t\t\t\tdefault:", ["C06"]),
 "c06-restart-although-zero": ("fsm.go", "\t\t\t\t\tif f.holdTime != 0 {\n\t\t\t\t\t\tf.drainAndResetHoldTimer()\n\t\t\t\t\t}\n\t\t\t\t\tcontinue\n\t\t\t\tcase updateMessage:", "\t\t\t\t\tf.drainAndResetHoldTimer()\n\t\t\t\t\tcontinue\n\t\t\t\tcase updateMessage:", ["C06"]),
 "c06-longhold-kept": ("fsm.go", "\t\t\t\t\tif !f.holdTimer.Stop() {\n\t\t\t\t\t\tselect {\n\t\t\t\t\t\tcase <-f.holdTimer.C:\n\t\t\t\t\t\tdefault:\n\t\t\t\t\t\t}\n\t\t\t\t\t}\n", "", ["C06"]),
 "c07-unfix-d3": ("peer.go", "if dominant == (i == out) {", "if dominant && i == out {", ["C07"]),
 "c07-dominance-flipped": ("peer.go", "dominant := localID > remoteID ||", "dominant := localID < remoteID ||", ["C07"]),
 "c07-no-as-tiebreak": ("peer.go", "(localID == remoteID) && (p.config.LocalAS > p.config.RemoteAS)", "(localID == remoteID) && false", ["C07"]),
 "c07-cease-on-survivor": ("peer.go", "\t\t\t\t\tp.disableFSM(other(i)) // wait for it to stop completely\n\t\t\t\t\tp.sendTransitionToFSM(i, t)", "\t\t\t\t\tp.disableFSM(other(i)) // wait for it to stop completely\n\t\t\t\t\tp.disableFSM(i)", ["C07"]),
 "c10-no-cease-established": ("fsm.go", "\t\t\tcase <-f.closeCh:\n\t\t\t\tn := newNotification(NOTIF_CODE_CEASE, 0, nil)\n\t\t\t\tf.sendNotification(n) // nolint: errcheck\n\t\t\t\treturn disabledState, newNotificationError(n, true)\n\t\t\tcase <-f.holdTimer.C:\n\t\t\t\tn := newNotification(NOTIF_CODE_HOLD_TIMER_EXPIRED, 0, nil)\n\t\t\t\tf.sendNotification(n) // nolint: errcheck\n\t\t\t\treturn idleState, newNotificationError(n, true)\n\t\t\tcase <-f.keepAliveTimer.C:\n\t\t\t\terr := f.sendKeepAlive()\n\t\t\t\tif err != nil {\n\t\t\t\t\treturn idleState, fmt.Errorf(\"error sending keepAlive: %w\", err)\n\t\t\t\t}\n\t\t\t\tresetKATimerCh <- struct{}{}", "\t\t\tcase <-f.closeCh:\n\t\t\t\tn := newNotification(NOTIF_CODE_CEASE, 0, nil)\n\t\t\t\treturn disabledState, newNotificationError(n, true)\n\t\t\tcase <-f.holdTimer.C:\n\t\t\t\tn := newNotification(NOTIF_CODE_HOLD_TIMER_EXPIRED, 0, nil)\n\t\t\t\tf.sendNotification(n) // nolint: errcheck\n\t\t\t\treturn idleState, newNotificationError(n, true)\n\t\t\tcase <-f.keepAliveTimer.C:\n\t\t\t\terr := f.sendKeepAlive()\n\t\t\t\tif err != nil {\n\t\t\t\t\treturn idleState, fmt.Errorf(\"error sending keepAlive: %w\", err)\n\t\t\t\t}\n\t\t\t\tresetKATimerCh <- struct{}{}", ["C10"]),
 "c10-skip-conn-cleanup": ("fsm.go", "\tf.cleanupConnAndReader()\n\tfor _, t := range []*time.Timer{", "\tfor _, t := range []*time.Timer{", ["C10"]),
 "c10-skip-disable-in": ("peer.go", "\t\tp.disableFSM(out)\n\t\tp.disableFSM(in)\n\t\tp.startupDelayTimer.Stop()", "\t\tp.disableFSM(out)\n\t\tp.startupDelayTimer.Stop()", ["C10", "C01"]),
 "c10-no-stop-peers": ("server.go", "\t\tfor _, peer := range s.peers {\n\t\t\tpeer.stop()\n\t\t}\n\t\ts.serving = false", "\t\ts.serving = false", ["C10"]),
 "c10-unfix-d7": ("fsm.go", "\tif dr := <-f.dialResultCh; dr != nil && dr.conn != nil {\n\t\tdr.conn.Close()\n\t}", "\t<-f.dialResultCh", ["C10"]),
 "c10-no-cease-midtransition": ("fsm.go", "\t\t\tt.from > activeState {", "\t\t\tt.from > openSentState {", ["C10", "C07"]),
 "c11-no-idlehold-reset": ("fsm.go", "\t\tf.idleHoldTimer.Reset(f.peer.options.idleHoldTime)\n", "\t\tf.idleHoldTimer.Reset(0)\n", ["C11"]),
 "c11-no-redial-after-retry": ("fsm.go", "\t\t\tif dr.err != nil {\n\t\t\t\tf.connectRetryTimer = time.NewTimer(f.peer.options.connectRetryTime)\n\t\t\t\tf.dialPeer()\n\t\t\t\tcontinue\n\t\t\t}", "\t\t\tif dr.err != nil {\n\t\t\t\tf.connectRetryTimer = time.NewTimer(f.peer.options.connectRetryTime)\n\t\t\t\tf.dialResultCh = nil\n\t\t\t\tf.cancelDialFn = nil\n\t\t\t\tcontinue\n\t\t\t}", ["C11"]),
 "c11-no-enable-out": ("peer.go", "\t\tp.disableFSM(i)\n\t\tp.enableFSM(out, nil)", "\t\tp.disableFSM(i)", ["C11"]),
 "c11-passive-dials": ("peer.go", "\tif i == out && p.options.passive {\n\t\treturn\n\t}", "\tif i == out && p.options.passive && conn != nil {\n\t\treturn\n\t}", ["C11", "C20"]),
 "c12-never-damp": ("notification_error.go", "return n.notification.Code != NOTIF_CODE_CEASE", "return false", ["C12"]),
 "c12-damp-cease": ("notification_error.go", "return n.notification.Code != NOTIF_CODE_CEASE", "return true", ["C12", "C11"]),
 "c12-cap-600": ("peer.go", "errorDelayMaxTime = time.Second * 300", "errorDelayMaxTime = time.Second * 600", ["C12"]),
 "c12-never-clear-holddown": ("peer.go", "\t\t\tp.enableFSM(out, nil)\n\t\t\tp.inHoldDown = false", "\t\t\tp.enableFSM(out, nil)", ["C12"]),
 "c12-never-set-holddown": ("peer.go", "\t\t\tp.updateStartupDelay()\n\t\t\tp.inHoldDown = true", "\t\t\tp.updateStartupDelay()", ["C12", "C13"]),
 "c12-no-doubling": ("peer.go", "p.startupDelay = min(2*p.startupDelay, errorDelayMaxTime)", "p.startupDelay = min(p.startupDelay, errorDelayMaxTime)", ["C12"]),
 "c12-amnesia-gt": ("peer.go", "errorAmnesiaTime = time.Second * 300", "errorAmnesiaTime = time.Second * 600", ["C12"]),
 "c12-only-out-damps": ("peer.go", "func (p *peer) handleError(i int, err error) {", "func (p *peer) handleError(i int, err error) {\n\tif i == in {\n\t\treturn\n\t}", ["C12"]),
 "c13-invert-dst": ("server.go", "if err != nil || p.options.localAddress != laddr {", "if err != nil || p.options.localAddress == laddr {", ["C13"]),
 "c13-unknown-not-closed": ("server.go", "\tp, exists := s.peers[h]\n\tif !exists {\n\t\tconn.Close()\n\t\treturn\n\t}", "\tp, exists := s.peers[h]\n\tif !exists {\n\t\treturn\n\t}", ["C13"]),
 "c13-key-on-local": ("server.go", "h, _, err := net.SplitHostPort(conn.RemoteAddr().String())", "h, _, err := net.SplitHostPort(conn.LocalAddr().String())", ["C13"]),
 "c20-insert-before-check": ("server.go", "\t_, exists := s.peers[config.RemoteAddress.String()]\n\tif exists {\n\t\treturn ErrPeerAlreadyExists\n\t}\n\tp := newPeer(config, s.id, plugin, o)", "\t_, exists := s.peers[config.RemoteAddress.String()]\n\tp := newPeer(config, s.id, plugin, o)\n\tif exists {\n\t\ts.peers[p.config.RemoteAddress.String()].config = config\n\t\treturn ErrPeerAlreadyExists\n\t}", ["C20"]),
 "c20-delete-unlocked": ("server.go", "func (s *Server) GetPeer(ip netip.Addr) (PeerConfig, error) {\n\ts.mu.Lock()\n\tdefer s.mu.Unlock()\n", "func (s *Server) GetPeer(ip netip.Addr) (PeerConfig, error) {\n", []),
 "c20-wrong-sentinel": ("server.go", "\tp, exists := s.peers[ip.String()]\n\tif !exists {\n\t\treturn ErrPeerNotExist\n\t}\n\tif s.serving {", "\tp, exists := s.peers[ip.String()]\n\tif !exists {\n\t\treturn ErrPeerAlreadyExists\n\t}\n\tif s.serving {", ["C20"]),
 "c20-start-not-serving": ("server.go", "\tif s.serving {\n\t\tp.start()\n\t}", "\tp.start()", ["C20"]),
 "c20-unfix-d5": ("server.go", "\tif p.LocalAS == 0 || p.RemoteAS == 0 {", "\tif opts.localAddress.IsValid() && (p.LocalAS == 0 || p.RemoteAS == 0) {", ["C20"]),
 "c20-no-stop-on-delete": ("server.go", "\tif s.serving {\n\t\tp.stop()\n\t}\n\tdelete(s.peers, ip.String())", "\tdelete(s.peers, ip.String())", ["C20", "C10"]),
 "c20-delete-wrong-order": ("server.go", "\tif s.serving {\n\t\tp.stop()\n\t}\n\tdelete(s.peers, ip.String())\n\treturn nil", "\tdelete(s.peers, ip.String())\n\tif s.serving {\n\t\ts.mu.Unlock()\n\t\tp.stop()\n\t\ts.mu.Lock()\n\t}\n\treturn nil", []),
 "c10-unfix-d4": ("peer.go", "func (p *peer) getFSMTransitionCh(f *fsm) chan stateTransition {\n\treturn p.transitionCh[f.dir]\n}", "func (p *peer) getFSMTransitionCh(f *fsm) chan stateTransition {\n\tif f == p.fsms[out] {\n\t\treturn p.transitionCh[out]\n\t}\n\treturn p.transitionCh[in]\n}", ["C10"]),
 "c10-unfix-d8": ("fsm.go", "\t<-kaManagerDoneCh\n", "", ["C10"]),
 "c12-d9-collision-site-only": ("peer.go", "\t\t// disable the other fsm\n\t\tif p.disableOtherFSM(i) {\n\t\t\tp.sendTransitionToFSM(i, t)\n\t\t}", "\t\t// disable the other fsm\n\t\tp.disableFSM(other(i))\n\t\tp.sendTransitionToFSM(i, t)", ["C12"]),
 "c10-unfix-d10": ("fsm.go", "\t\t\t(t.from > activeState || toBefore == openSentState) {", "\t\t\t(t.from > activeState) {", ["C10"]),
 "c12-unfix-d9": ("peer.go", "\t\tp.handleError(other(i), o.unreportedErr)\n", "\t\t_ = o.unreportedErr\n", ["C12"]),
 "c05-unfix-d2b": ("fsm.go", "\t\t\t\t\tif f.holdTime != 0 {\n\t\t\t\t\t\tf.drainAndResetHoldTimer()\n\t\t\t\t\t}\n\t\t\t\t\treturn establishedState, nil", "\t\t\t\t\tf.drainAndResetHoldTimer()\n\t\t\t\t\treturn establishedState, nil", ["C06", "C05"]),
}

def sh(cmd, **kw):
    return subprocess.run(cmd, shell=True, capture_output=True, text=True, **kw)

def main():
    names = sys.argv[1:] or sorted(M)
    if sh("git -C %s status --porcelain" % REPO).stdout.strip():
        print("refusing: /repo has uncommitted changes"); sys.exit(2)
    results = {}
    for name in names:
        f, old, new, props = M[name]
        p = os.path.join(REPO, f)
        src = open(p).read()
        if src.count(old) != 1:
            print("%-28s SKIP (pattern occurs %d times)" % (name, src.count(old))); continue
        open(p, "w").write(src.replace(old, new))
        try:
            b = sh("cd %s && go build ./... && go vet . 2>&1 | head -3 ; go test -vet=off -count=1 . 2>&1 | tail -1" % REPO)
            if "ok" not in b.stdout:
                print("%-28s INVALID (does not build / pass tests): %s" % (name, (b.stdout + b.stderr).strip()[-200:])); continue
            row = []
            for pr in (os.environ.get("MUT_PROPS", "").split() or props):
                r = sh("cd /verif && VERIF_BUDGET=%s ./check %s quick" % (os.environ.get("MUT_BUDGET", "12"), pr))
                sig = re.findall(r"signature: (\S+)", r.stdout)
                row.append("%s:%s%s" % (pr, {0: "MISSED", 1: "caught", 2: "TROUBLE"}.get(r.returncode, r.returncode), (" [" + sig[0] + "]") if sig else ""))
                if r.returncode == 2:
                    row.append((r.stderr or r.stdout)[-300:].replace("\n", " | "))
            print("%-28s %s" % (name, "  ".join(row)), flush=True)
        finally:
            open(p, "w").write(src)
            sh("rm -f /verif/replays/*.json")
    sh("git -C %s checkout -- ." % REPO)

main()
