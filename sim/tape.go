package sim

import (
	"fmt"
	"sync"
)

// Tape is the single source of nondeterminism of a run. In generation mode
// values come from a splitmix64 PRNG; in replay mode from a recorded list
// (0 past its end). Every draw is recorded as (n, value).
type Tape struct {
	mu     sync.Mutex
	x      uint64
	replay []uint32
	isRep  bool
	strict bool // replay must match recorded n exactly
	recN   []uint32
	recV   []uint32
	// KeepLabels records what each draw was for (replay files only)
	KeepLabels bool
	recWhat    []string
	pos        int
	// Diverged is set in strict mode when a requested n differs from the recorded one.
	Diverged bool
	strictN  []uint32
}

func mix64(z uint64) uint64 {
	z = (z ^ (z >> 30)) * 0xbf58476d1ce4e5b9
	z = (z ^ (z >> 27)) * 0x94d049bb133111eb
	return z ^ (z >> 31)
}

// NewTape returns a generating tape for (seed, run).
func NewTape(seed uint64, run uint64) *Tape {
	return &Tape{x: mix64(seed*0x9e3779b97f4a7c15+0x1234567) ^ mix64(run+0x51ed27)}
}

// NewReplayTape returns a lenient replaying tape (values reduced mod n).
func NewReplayTape(vals []uint32) *Tape {
	return &Tape{replay: vals, isRep: true}
}

// NewStrictReplayTape replays (n, v) pairs and flags any mismatch of n.
func NewStrictReplayTape(ns, vals []uint32) *Tape {
	return &Tape{replay: vals, isRep: true, strict: true, strictN: ns}
}

func (t *Tape) next() uint64 {
	t.x += 0x9e3779b97f4a7c15
	return mix64(t.x)
}

func (t *Tape) Draw(n int, what string) int {
	if n <= 1 {
		return 0
	}
	t.mu.Lock()
	defer t.mu.Unlock()
	var v int
	if t.isRep {
		if t.pos < len(t.replay) {
			v = int(t.replay[t.pos] % uint32(n))
			if t.strict && (t.pos >= len(t.strictN) || t.strictN[t.pos] != uint32(n)) {
				t.Diverged = true
			}
		} else if t.strict {
			t.Diverged = true
		}
	} else {
		v = int(t.next() % uint64(n))
	}
	t.pos++
	t.recN = append(t.recN, uint32(n))
	t.recV = append(t.recV, uint32(v))
	if t.KeepLabels {
		t.recWhat = append(t.recWhat, what)
	}
	return v
}

// Recorded returns the (n, v) pairs drawn so far.
func (t *Tape) Recorded() (ns, vs []uint32) {
	t.mu.Lock()
	defer t.mu.Unlock()
	return append([]uint32(nil), t.recN...), append([]uint32(nil), t.recV...)
}

func (t *Tape) Len() int {
	t.mu.Lock()
	defer t.mu.Unlock()
	return t.pos
}

// NonZero lists the draws whose value is not the boring default, with labels.
func (t *Tape) NonZero() []string {
	t.mu.Lock()
	defer t.mu.Unlock()
	var out []string
	for i, v := range t.recV {
		if v != 0 {
			w := ""
			if i < len(t.recWhat) {
				w = t.recWhat[i]
			}
			out = append(out, fmt.Sprintf("#%d %s = %d of %d", i, w, v, t.recN[i]))
		}
	}
	return out
}
