package sim

import (
	"time"

	"github.com/jwhited/corebgp"
)

// S00 is the pipeline smoke test: one active peer, a well-behaved remote.
func init() {
	register(&Property{ID: "S00", Rule: "smoke", Run: func(w *World) {
		e := w.NewEnv("10.0.0.1")
		p := e.NewPeer(PeerSpec{RemoteIP: "10.0.0.2", LocalAS: 65001, RemoteAS: 65002, Hold: 9,
			IdleHold: 2 * time.Second, ConnectRetry: 3 * time.Second}, "10.0.0.2", 9)
		p.Plug.Oracle = true
		w.Net.CapsOracle = true
		p.Plug.EstFn = func(pl *Plug, s *Session) { s.Writer.WriteUpdate([]byte{0, 0, 0, 0}) }
		p.Plug.CapsFn = func(int) []corebgp.Capability { return []corebgp.Capability{corebgp.NewMPExtensionsCapability(1, 1)} }
		if err := e.Add(p); err != nil {
			w.HarnessError("AddPeer: %v", err)
			return
		}
		e.Serve("10.0.0.1:179")
		refuse := w.Draw(3, "refusals")
		for i := 0; ; i++ {
			d := p.Site.WaitDial(time.Minute)
			if d == nil {
				w.HarnessError("no dial")
				return
			}
			if i < refuse {
				d.Refuse()
				continue
			}
			c := d.Accept()
			w.Go("speaker", func() {
				o, ok := p.Speaker.Handshake(c, time.Minute)
				if !ok {
					w.HarnessError("handshake failed")
					return
				}
				c.SendSeg(MkFrame(MsgUpdate, []byte{0, 0, 0, 0}))
				p.Speaker.KeepAlive(c, o, nil)
			})
			break
		}
		if !w.WaitUntil("est", 2*time.Minute, func() bool { return p.Plug.NUpd > 0 }) {
			w.HarnessError("no update delivered")
			return
		}
		w.NonTrivial = true
		w.Sleep(time.Duration(w.Range(1, 30, "uptime")) * time.Second)
		if !e.Shutdown(10 * time.Second) {
			w.Violate("S00/shutdown/stuck", "Close did not return")
			return
		}
		if lt := w.LibTasksAlive(); len(lt) > 0 {
			w.Violate("S00/leak", "tasks alive after Close: %s", w.aliveSummary())
		}
	}})
}
