package sim

// Independent BGP wire code, written from RFC 4271 / 5492 / 6793. Nothing here
// is shared with corebgp's codec.

import (
	"encoding/binary"
	"fmt"
)

const (
	MsgOpen         = 1
	MsgUpdate       = 2
	MsgNotification = 3
	MsgKeepalive    = 4
)

// MkFrame builds a message with a correct header.
func MkFrame(t byte, body []byte) []byte {
	b := make([]byte, 19, 19+len(body))
	for i := 0; i < 16; i++ {
		b[i] = 0xff
	}
	binary.BigEndian.PutUint16(b[16:], uint16(19+len(body)))
	b[18] = t
	return append(b, body...)
}

// MkRawHeader builds a header with arbitrary fields followed by body.
func MkRawHeader(marker [16]byte, length uint16, t byte, body []byte) []byte {
	b := make([]byte, 19, 19+len(body))
	copy(b, marker[:])
	binary.BigEndian.PutUint16(b[16:], length)
	b[18] = t
	return append(b, body...)
}

func AllOnes() (m [16]byte) {
	for i := range m {
		m[i] = 0xff
	}
	return
}

type Cap struct {
	Code byte
	Val  []byte
}

func (c Cap) Enc() []byte {
	return append([]byte{c.Code, byte(len(c.Val))}, c.Val...)
}

func FourOctetASCap(as uint32) Cap {
	v := make([]byte, 4)
	binary.BigEndian.PutUint32(v, as)
	return Cap{65, v}
}

// OpenSpec describes an OPEN body to build.
type OpenSpec struct {
	Version byte
	AS2     uint16
	Hold    uint16
	ID      uint32
	// Params is the raw optional-parameters field (without its length octet).
	Params []byte
	// OptLenOverride, if >= 0, replaces the optional parameters length octet.
	OptLenOverride int
}

func (o OpenSpec) Body() []byte {
	b := make([]byte, 10, 10+len(o.Params))
	b[0] = o.Version
	binary.BigEndian.PutUint16(b[1:], o.AS2)
	binary.BigEndian.PutUint16(b[3:], o.Hold)
	binary.BigEndian.PutUint32(b[5:], o.ID)
	b[9] = byte(len(o.Params))
	if o.OptLenOverride >= 0 {
		b[9] = byte(o.OptLenOverride)
	}
	return append(b, o.Params...)
}

// CapParam encodes one optional parameter of type 2 holding caps.
func CapParam(caps ...Cap) []byte {
	var v []byte
	for _, c := range caps {
		v = append(v, c.Enc()...)
	}
	return append([]byte{2, byte(len(v))}, v...)
}

// GoodOpen is a well-formed OPEN body for a speaker with the given identity.
func GoodOpen(as uint32, hold uint16, id uint32, extra ...Cap) []byte {
	as2 := uint16(23456)
	if as <= 65535 {
		as2 = uint16(as)
	}
	caps := append([]Cap{FourOctetASCap(as)}, extra...)
	return OpenSpec{Version: 4, AS2: as2, Hold: hold, ID: id, Params: CapParam(caps...), OptLenOverride: -1}.Body()
}

// ParsedOpen is the result of the strict OPEN parser.
type ParsedOpen struct {
	Version byte
	AS2     uint16
	Hold    uint16
	ID      uint32
	// Params: type and raw value of each optional parameter, in order
	ParamTypes []byte
	ParamVals  [][]byte
	// Caps: all capabilities of all type-2 parameters, in order
	Caps []Cap
}

// ParseOpenStrict parses an OPEN body; every nested length must agree exactly
// with the bytes that follow and nothing may trail.
func ParseOpenStrict(b []byte) (*ParsedOpen, error) {
	if len(b) < 10 {
		return nil, fmt.Errorf("OPEN body of %d bytes is shorter than the fixed fields", len(b))
	}
	o := &ParsedOpen{Version: b[0], AS2: binary.BigEndian.Uint16(b[1:]), Hold: binary.BigEndian.Uint16(b[3:]),
		ID: binary.BigEndian.Uint32(b[5:])}
	if int(b[9]) != len(b)-10 {
		return nil, fmt.Errorf("optional parameters length octet %d but %d bytes follow", b[9], len(b)-10)
	}
	p := b[10:]
	for len(p) > 0 {
		if len(p) < 2 {
			return nil, fmt.Errorf("truncated optional parameter header")
		}
		t, l := p[0], int(p[1])
		if len(p) < 2+l {
			return nil, fmt.Errorf("optional parameter type %d length %d overruns the field (%d left)", t, l, len(p)-2)
		}
		v := p[2 : 2+l]
		o.ParamTypes = append(o.ParamTypes, t)
		o.ParamVals = append(o.ParamVals, append([]byte(nil), v...))
		if t == 2 {
			for len(v) > 0 {
				if len(v) < 2 {
					return nil, fmt.Errorf("truncated capability header")
				}
				cl := int(v[1])
				if len(v) < 2+cl {
					return nil, fmt.Errorf("capability %d length %d overruns its parameter (%d left)", v[0], cl, len(v)-2)
				}
				o.Caps = append(o.Caps, Cap{v[0], append([]byte(nil), v[2:2+cl]...)})
				v = v[2+cl:]
			}
		}
		p = p[2+l:]
	}
	return o, nil
}

// MkNotif builds a NOTIFICATION message.
func MkNotif(code, sub byte, data []byte) []byte {
	return MkFrame(MsgNotification, append([]byte{code, sub}, data...))
}

func U32(id uint32) [4]byte {
	var b [4]byte
	binary.BigEndian.PutUint32(b[:], id)
	return b
}
