package sim

import (
	"fmt"
	"net/netip"
	"strings"
	"time"

	"github.com/jwhited/corebgp"
)

// C12 — protocol errors damp the peer; Cease and transport faults do not.
func init() {
	register(&Property{ID: "C12", Run: runC12,
		Rule: "per run: a history of 1-8 events on one peer (active or passive), each injected at a quiescent point outside any hold-down from OpenSent/OpenConfirm/Established on an inbound or outbound connection: a protocol error (remote NOTIFICATION code 1-5,7 with any subcode/data; or one corebgp is provoked to send: bad marker/length/type, bad OPEN, handler-returned UPDATE error, hold-timer expiry, wrong message for the state) or a non-damping event (Cease from the remote, FIN, RST), separated by gaps of 0-700 s of virtual time; during every hold-down inbound connections are offered at drawn instants incl. just before the edge; an executable model of the statement (60 s, doubling, 300 s cap, 300 s amnesia) predicts every window; non-trivial when at least one protocol error was injected; distinct = distinct (event kinds, states, directions, predicted delays)"})
}

func runC12(w *World) {
	w.NoStall = true
	w.MaxSteps = 80000
	w.Horizon = 30 * 24 * time.Hour
	passive := w.Chance(1, 3, "passive")
	ih, cr := Pick(w, "idlehold", 10*time.Second, 10*time.Second, 10*time.Second, time.Second), 5*time.Second
	// a slow user Logger keeps the peer manager busy while errors are reported
	var logMax time.Duration
	if w.Chance(1, 3, "slow-logger") {
		logMax = 1200 * time.Millisecond
		w.SlowLogger(int(logMax / time.Millisecond))
	}
	// (the scripts wait for the Logger too: a hold time the waiting cannot eat up)
	hold := 3
	if logMax > 0 {
		hold = 30
	}
	handlerNotif := false
	var handlerRet, openRet *corebgp.Notification // what the plugin returns next (nil: nothing)
	s := NewStd1(w, Std1Opts{Dir: DirOut, Passive: passive, LocalHold: hold, RemoteHold: uint16(hold), IdleHold: ih, Retry: cr, Vary: true,
		Configure: func(p *PeerH) {
			p.Plug.UpdFn = func(pl *Plug, ss *Session, idx int, b []byte) *corebgp.Notification {
				if handlerNotif {
					handlerNotif = false
					return &corebgp.Notification{Code: 3, Subcode: byte(w.Range(1, 11, "hsub")), Data: w.RandBytes(w.Draw(5, "hdl"), "hd")}
				}
				if handlerRet != nil {
					n := handlerRet
					handlerRet = nil
					return n
				}
				return nil
			}
			p.Plug.OpenFn = func(netip.Addr, []corebgp.Capability) *corebgp.Notification {
				n := openRet
				openRet = nil
				return n
			}
		}})
	if s == nil {
		return
	}
	p, e := s.P, s.E
	// a second peer with a healthy session: nothing that happens to the first one
	// may disturb it
	by := e.NewPeer(PeerSpec{RemoteIP: "10.0.0.3", LocalAS: 65001, RemoteAS: 65003, Hold: 90, IdleHold: time.Second, ConnectRetry: 2 * time.Second}, "10.0.0.3", 90)
	by.Site.DialPolicy = func(*DialRec) int { return 1 }
	by.Site.OnConn = func(c *Conn) { by.Speaker.Serve(c, nil) }
	if err := e.Add(by); err != nil {
		w.HarnessError("C12 bystander: %v", err)
		return
	}
	bound := ih + cr + time.Second + 4*logMax
	refuseAll := func(*DialRec) int { return 2 }
	takeAll := func() {
		for _, d := range p.Site.DialList() {
			d.Taken = true
		}
	}
	// model of the statement
	var d time.Duration
	tLast, sleptLast := time.Duration(-1), time.Duration(0)
	nevents := 1 + w.Draw(8, "nevents")
	if w.Tier == "thorough" && w.Chance(1, 3, "longhistory") {
		nevents = 6 + w.Draw(8, "nevents2")
		w.MaxSteps = 200000
	}
	var hist []string
	nproto := 0
	// keepalives for connections that stay up while we wait
	for ev := 0; ev < nevents && !w.Failed(); ev++ {
		dir := DirOut
		if passive || w.Draw(2, "dir") == 1 {
			dir = DirIn
		}
		st := w.Draw(3, "state")
		second := !passive && w.Chance(1, 4, "second-conn")
		// the error coincides with the resolution of a connection collision: the remote's
		// OPEN on the second connection arrives together with it
		coincide := second && st == StOpenConfirm && w.Chance(1, 2, "error-coincides-with-collision")
		// ... or with the second connection becoming Established (its KEEPALIVE arrives
		// together with the error on the first one, which is still in OpenSent)
		coincideEst := second && st == StOpenSent && w.Chance(1, 2, "error-coincides-with-established")
		var c2nd *Conn
		var trig []byte
		// ---- acquire a connection in the target state ----
		var c *Conn
		if dir == DirOut {
			p.Site.DialPolicy = nil
			dl := p.Site.WaitDial(bound)
			if dl == nil {
				w.Violate("C12/retry/no-dial-outside-hold-down", "event %d (%v): no outbound attempt within %v although no hold-down is in force", ev, hist, bound)
				return
			}
			c = dl.Accept()
			if c == nil {
				w.HarnessError("C12: dial vanished")
				return
			}
		} else {
			// sometimes an outbound connection is in progress (OpenSent) as well: a
			// protocol error on the inbound one must drop both. It is acquired
			// first, so that no virtual time passes once c's hold timer runs.
			if second && st < StEstablished {
				p.Site.DialPolicy = nil
				if dl := p.Site.WaitDial(bound); dl != nil {
					if c2 := dl.Accept(); c2 != nil && ExpectOpen(c2, time.Second) != nil {
						w.Probe("second-connection-in-progress")
						c2nd = c2
					}
				}
				w.Quiesce()
			}
			p.Site.DialPolicy = refuseAll
			// a pending attempt would collide with our inbound connection: refuse it
			for _, dl := range p.Site.DialList() {
				if dl.Pending() {
					dl.Refuse()
				}
			}
			w.Quiesce()
			c = e.OpenConn(p, DirIn, time.Minute)
		}
		if _, err := e.Advance(p, c, st, time.Minute); err != nil {
			w.Violate("C12/retry/not-served-outside-hold-down", "event %d after %v: a %s connection outside any hold-down was not served: %v", ev, hist, dir, err)
			return
		}
		p.Site.DialPolicy = refuseAll
		if st == StEstablished && w.Chance(1, 2, "dwell") {
			// let the session get older than the idle-hold time first
			end := w.Now() + time.Duration(w.Range(0, 15000, "dwellms"))*time.Millisecond
			p.Speaker.KeepAlive(c, &ParsedOpen{Hold: uint16(hold)}, func() bool { return w.Now() >= end })
			if c.LocalClosed() {
				w.HarnessError("C12: session lost while dwelling")
				return
			}
			w.Quiesce()
		}
		if second && dir == DirOut && st < StEstablished {
			// an inbound connection in OpenSent next to the outbound one (zero virtual time)
			if c2 := e.OpenConn(p, DirIn, time.Minute); c2 != nil && ExpectOpen(c2, time.Second) != nil {
				w.Probe("second-connection-in-progress")
				c2nd = c2
			}
			w.Quiesce()
		}
		// ---- inject ----
		kind := w.Draw(15, "kind")
		if kind == 12 && st != StOpenSent { // OnOpenMessage runs in OpenSent only
			kind = 0
		}
		if kind == 13 && st != StEstablished {
			kind = 8
		}
		if kind == 14 && st != StOpenSent {
			kind = 9
		}
		if kind == 6 && st != StEstablished { // handler error needs a session
			kind = 0
		}
		if kind == 5 && st == StOpenSent { // hold-timer expiry in OpenSent takes 4 minutes: use a bad OPEN instead
			kind = 4
		}
		if kind == 4 && st != StOpenSent {
			kind = 7
		}
		tie := false
		// avoid an amnesia tie: corebgp measures the 300 s between the instants its peer
		// manager handled the two errors, and a slow Logger delays each of them
		// (without a Logger the tie zone is stepped out of; with one it is detected
		// once the instant of the event is known, see below)
		if tLast >= 0 && logMax == 0 {
			if g := w.Now() - tLast - 300*time.Second; g > -10*time.Millisecond && g < 10*time.Millisecond {
				w.Sleep(20 * time.Millisecond)
			}
		}
		if coincideEst && c2nd != nil && !c2nd.LocalClosed() {
			// bring the second connection to OpenConfirm first (zero virtual time)
			nf0 := c2nd.NFrames()
			c2nd.SendSeg(p.Speaker.OpenFrame())
			w.Quiesce()
			if fs2 := NewFrames(c2nd, nf0); len(fs2) == 1 && fs2[0].Type == MsgKeepalive && !c2nd.LocalClosed() && !c.LocalClosed() {
				coincide, trig = true, KeepaliveFrame()
				w.Probe("error-coincides-with-established")
			}
		}
		damp := true
		name := ""
		before := c.NFrames()
		slept0, tInj, seqT := w.LogSlept, w.Now(), w.Seq()
		openAfter := false
		if coincide && trig == nil {
			trig = p.Speaker.OpenFrame()
		}
		if coincide && c2nd != nil && !c2nd.LocalClosed() {
			if !coincideEst {
				w.Probe("error-coincides-with-collision")
			}
			if w.Draw(2, "open-first") == 0 {
				c2nd.SendSeg(trig)
				for i, n := 0, w.Draw(8, "coincide-yields"); i < n; i++ {
					w.Yield("c12.coincide")
				}
			} else {
				openAfter = true
			}
		}
		if w.Chance(1, 3, "concurrent-inbound") {
			// keep the peer manager busy with something else at the very moment the
			// error is reported: an inbound connection from the same peer
			w.Go("concurrent-inbound", func() {
				for i, n := 0, w.Draw(6, "ciyields"); i < n; i++ {
					w.Yield("c12.ci")
				}
				ci := e.OpenConn(p, DirIn, time.Minute)
				w.Quiesce()
				if ci != nil && !ci.RemoteClosed() {
					ci.FIN()
				}
			})
			w.Probe("inbound-offered-concurrently-with-the-error")
		}
		switch kind {
		case 0, 1: // the remote sends a protocol NOTIFICATION
			code := Pick(w, "code", byte(1), 2, 3, 4, 5, 7)
			c.SendSeg(MkNotif(code, byte(w.Draw(12, "sub")), w.RandBytes(w.Draw(9, "dl"), "d")))
			name = fmt.Sprintf("rx-notification-%d", code)
		case 2: // bad marker
			m := AllOnes()
			m[w.Draw(16, "mi")] = 0x7f
			c.SendSeg(MkRawHeader(m, 19, 4, nil))
			name = "tx-header-error-marker"
		case 3: // bad length / type
			if w.Draw(2, "lt") == 0 {
				c.SendSeg(MkRawHeader(AllOnes(), uint16(Pick(w, "bl", 0, 18, 4097, 65535)), 4, nil))
				name = "tx-header-error-length"
			} else {
				c.SendSeg(MkRawHeader(AllOnes(), 19, byte(Pick(w, "bt", 0, 5, 77, 255)), nil))
				name = "tx-header-error-type"
			}
		case 4: // bad OPEN (OpenSent only)
			c.SendSeg(MkFrame(MsgOpen, OpenSpec{Version: 3, AS2: uint16(p.Spec.RemoteAS), Hold: 90, ID: p.Speaker.ID, Params: CapParam(FourOctetASCap(p.Spec.RemoteAS)), OptLenOverride: -1}.Body()))
			name = "tx-open-error"
		case 5: // silence until the hold timer expires (OpenConfirm / Established; hold time 3 s)
			name = "tx-hold-timer-expired"
			w.WaitUntil("c12.silence", time.Duration(hold)*time.Second+2*time.Second, c.LocalClosed)
		case 6: // the handler returns an UPDATE error
			handlerNotif = true
			c.SendSeg(MkFrame(MsgUpdate, []byte{0, 0, 0, 0}))
			name = "tx-update-error"
		case 7: // a message that is illegal in this state
			switch st {
			case StOpenSent:
				c.SendSeg(KeepaliveFrame())
			default:
				c.SendSeg(p.Speaker.OpenFrame())
			}
			name = "tx-fsm-error"
		case 8: // Cease from the remote
			c.SendSeg(MkNotif(6, byte(w.Draw(9, "csub")), nil))
			name, damp = "rx-cease", false
		case 9:
			c.FIN()
			name, damp = "fin", false
		case 10:
			c.RST()
			name, damp = "rst", false
		case 12: // the plugin refuses the OPEN with a protocol NOTIFICATION
			openRet = &corebgp.Notification{Code: 2, Subcode: byte(w.Range(1, 7, "osub"))}
			c.SendSeg(p.Speaker.OpenFrame())
			name = "tx-open-refused-by-plugin"
		case 13: // the plugin ends the session with a Cease from the handler
			handlerRet = &corebgp.Notification{Code: 6, Subcode: byte(w.Draw(9, "hcsub"))}
			c.SendSeg(MkFrame(MsgUpdate, []byte{0, 0, 0, 0}))
			name, damp = "tx-cease-from-handler", false
		case 14: // the plugin refuses the OPEN with a Cease
			openRet = &corebgp.Notification{Code: 6, Subcode: byte(w.Draw(9, "ocsub"))}
			c.SendSeg(p.Speaker.OpenFrame())
			name, damp = "tx-cease-from-onopen", false
		default:
			c.SendSeg(MkNotif(6, 2, nil))
			name, damp = "rx-cease", false
		}
		if openAfter {
			for i, n := 0, w.Draw(8, "coincide-yields"); i < n; i++ {
				w.Yield("c12.coincide")
			}
			if !c2nd.LocalClosed() {
				c2nd.SendSeg(trig)
			}
		}
		w.Quiesce()
		// one-shot plugin reactions that were not consumed (the connection went away first)
		// must not leak into a later event
		openRet, handlerRet, handlerNotif = nil, nil, false
		t := tInj // (a slow Logger makes the settling above take time)
		fs := NewFrames(c, before)
		if coincide && damp && kind <= 1 {
			// The remote's NOTIFICATION raced with the collision: if corebgp sent its
			// collision Cease on c, the FSM of c never handled the NOTIFICATION (it closes
			// the connection when it does, so it could not have sent the Cease afterwards):
			// nothing was received in the sense of the statement and no hold-down is owed.
			for i := range fs {
				if fs[i].IsNotif(6, -1) {
					damp = false
					w.Probe("collision-cease-overtook-the-remote-notification")
				}
			}
		}
		if (kind >= 2 && kind <= 7) || kind == 12 {
			// corebgp must have sent the NOTIFICATION that starts the hold-down; take its time
			var nf *Frame
			for i := range fs {
				if fs[i].Type == MsgNotification {
					nf = &fs[i]
				}
			}
			if nf == nil || nf.IsNotif(6, -1) {
				// which NOTIFICATION must be sent is C02/C06/C08/C09's business; without one there is no protocol error to damp
				w.Probe("provocation-produced-no-protocol-notification:" + name)
				damp = false
			} else {
				t, seqT = nf.At, nf.Seq
			}
		}
		if damp && tLast >= 0 {
			// corebgp's clock for the 300 s runs from when its manager handled the previous
			// error (up to l1 after tLast) to when it handles this one (up to l2 after t):
			// the model's verdict can differ from corebgp's iff -l2 <= g < l1
			l1 := (slept0 - sleptLast) + logMax
			l2 := (w.LogSlept - slept0) + logMax
			if g := t - tLast - 300*time.Second; g >= -l2-10*time.Millisecond && g < l1+10*time.Millisecond {
				tie = true // not judged; the history ends with this event
			}
		}
		// (a0) the FSM that sent or received the NOTIFICATION never dials again: whatever
		// it does next is causally after the error (attempts of the peer's OTHER FSM
		// that were under way at that instant are a race and are left to the window
		// check below)
		if damp && c.Owner() != "" {
			for _, dl := range p.Site.DialList() {
				if dl.Seq > seqT && strings.HasPrefix(dl.Task, c.Owner()+".") {
					w.Violate("C12/dial-in-hold-down/by-the-failed-fsm", "history %v + %s: the FSM (%s) whose connection %s ended with the protocol error at %v dialled again at %v", hist, name, c.Owner(), c, t, dl.At)
					return
				}
			}
		}
		name = fmt.Sprintf("%s@%s/%s", name, stNames[st], dir)
		hist = append(hist, name)
		w.Probe("event:" + name[:len(name)-len(stNames[st])-len(dir.String())-2])
		// (a) every connection of the peer is closed
		for _, x := range p.Site.ConnList() {
			if x.Handed && !x.LocalClosed() {
				if !damp && x != c {
					// a non-damping event ends its own connection only; get rid of the other one
					x.FIN()
					continue
				}
				if coincide && x == c2nd && c.LocalClosed() && len(x.AllFrames()) >= 2 {
					// the history of known finding D9 (DESIGN 11.4): corebgp answered the remote's
					// OPEN on the second connection (it won the collision) although the FSM of the
					// first one had already sent or handled the protocol NOTIFICATION
					sig := "C12/protocol-error-lost/collision-kill-wins-the-report"
					if coincideEst {
						sig = "C12/protocol-error-lost/established-disable-wins-the-report"
					}
					w.Violate(sig, "after %s (history %v) on %s, at the instant the peer manager resolved the collision in favour of %s: %s was closed, but the protocol error never reached the peer manager - %s is still open (%s) and there is no hold-down", name, hist, c, x, c, x, descFrames(x.AllFrames()))
					return
				}
				w.Violate("C12/connection-not-dropped", "after %s connection %s is still open", name, x)
				return
			}
		}
		w.Quiesce()
		takeAll()
		nd := p.Site.NDials()
		if !damp {
			// non-damping: the peer is retried as usual and the model is unchanged
			if passive {
				c2 := e.OpenConn(p, DirIn, time.Minute)
				if ExpectOpen(c2, time.Second+2*logMax) == nil {
					w.Violate("C12/non-damping-event-damped", "after %s (history %v) an inbound connection was refused although no protocol error occurred", name, hist)
					return
				}
				c2.FIN()
				w.Quiesce()
			} else {
				if !w.WaitUntil("c12.nodamp", bound, func() bool { return p.Site.NDials() > nd }) {
					w.Violate("C12/non-damping-event-damped", "after %s (history %v) no outbound attempt followed within %v although no protocol error occurred", name, hist, bound)
					return
				}
			}
		} else if tie {
			w.Probe("amnesia-tie-not-judged")
			w.Sleep(301*time.Second + 4*logMax)
			w.Quiesce()
			takeAll()
			break
		} else {
			nproto++
			w.NonTrivial = true
			if tLast >= 0 && t-tLast >= 300*time.Second {
				d = 0
				w.Probe("amnesia")
			}
			tLast, sleptLast = t, slept0
			if d == 0 {
				d = 60 * time.Second
			} else {
				d = min(2*d, 300*time.Second)
			}
			w.Probe(fmt.Sprintf("delay-%ds", int(d/time.Second)))
			w.State(fmt.Sprintf("%s|%ds", name, int(d/time.Second)))
			end := t + d
			// offers inside the window
			for k, n := 0, w.Draw(4, "noffers"); k < n; k++ {
				var at time.Duration
				if w.Draw(3, "edge") == 0 {
					at = end - Pick(w, "edgeeps", 5*time.Millisecond, 100*time.Millisecond, time.Second)
				} else {
					at = t + time.Duration(w.Range(1, int(d/time.Millisecond)-10, "offerms"))*time.Millisecond
				}
				if at <= w.Now() {
					continue
				}
				w.Sleep(at - w.Now())
				if w.Now() >= end-2*time.Millisecond {
					break
				}
				c2 := e.OpenConn(p, DirIn, time.Minute)
				w.Quiesce()
				w.Probe("inbound-offered-in-window")
				if !c2.LocalClosed() || c2.OutLen() != 0 {
					w.Violate("C12/inbound-served-in-hold-down", "history %v: protocol error at %v starts a %v hold-down, but an inbound connection offered at %v was not refused (closed=%v, %d bytes written)", hist, t, d, w.Now(), c2.LocalClosed(), c2.OutLen())
					return
				}
				c2.FIN()
			}
			if w.Now() < end-3*time.Millisecond {
				w.Sleep(end - 3*time.Millisecond - w.Now())
			}
			if n := p.Site.NDials(); n != nd {
				dl := p.Site.DialList()[nd]
				w.Violate("C12/dial-in-hold-down", "history %v: protocol error at %v starts a %v hold-down, but an outbound attempt was made at %v", hist, t, d, dl.At)
				return
			}
			// the edge
			if passive {
				// (the manager learns of the error later by however long the Logger held it up)
				w.Sleep(3*time.Millisecond + Pick(w, "aftereps", 5*time.Millisecond, 200*time.Millisecond, time.Second) + (w.LogSlept - slept0))
				c2 := e.OpenConn(p, DirIn, time.Minute)
				if ExpectOpen(c2, time.Second+2*logMax) == nil {
					w.Violate("C12/hold-down-too-long", "history %v: the %v hold-down started at %v is over at %v, but an inbound connection offered at %v was still refused", hist, d, t, end, w.Now())
					return
				}
				c2.FIN()
				w.Quiesce()
			} else {
				if !w.WaitUntil("c12.edge", time.Second+3*time.Millisecond+(w.LogSlept-slept0)+2*logMax, func() bool { return p.Site.NDials() > nd }) {
					w.Violate("C12/hold-down-too-long", "history %v: the %v hold-down started at %v is over at %v, but no outbound attempt followed within 1 s", hist, d, t, end)
					return
				}
			}
		}
		w.Quiesce()
		takeAll()
		if ev+1 < nevents {
			gap := Pick(w, "gap", 0, 1, 30, 100, 250, 400, 700, -1)
			if gap < 0 {
				gap = w.Range(0, 700, "gapr")
			}
			if gap > 0 {
				// attempts made meanwhile are left hanging until corebgp gives them up
				// (fewer of them than with refusals)
				p.Site.DialPolicy = nil
				w.Sleep(time.Duration(gap) * time.Second)
				p.Site.DialPolicy = refuseAll
			}
			takeAll()
		}
	}
	if w.Failed() {
		return
	}
	w.Rel(fmt.Sprint(hist, passive))
	w.Sample["history"] = fmt.Sprint(hist)
	w.Sample["passive"] = passive
	w.Sample["protocol_errors"] = nproto
	// (e) a well-behaved remote establishes again
	nest := p.Plug.NEst
	if passive {
		c := e.OpenConn(p, DirIn, time.Minute)
		w.Go("good", func() { p.Speaker.Serve(c, nil) })
	} else {
		p.Site.DialPolicy = func(*DialRec) int { return 1 }
		p.Site.OnConn = func(c *Conn) { p.Speaker.Serve(c, nil) }
	}
	if by.Plug.NClose != 0 || by.Plug.NEst != 1 {
		w.Violate("C12/other-peer-disturbed", "the history %v on one peer disturbed another peer's session (OnEstablished %d, OnClose %d)", hist, by.Plug.NEst, by.Plug.NClose)
		return
	}
	if !w.WaitUntil("c12.final", bound, func() bool { return p.Plug.NEst > nest }) {
		w.Violate("C12/retry/not-established-after-history", "after %v and the end of every hold-down a well-behaved remote could not establish a session within %v", hist, bound)
		return
	}
	e.FinishRun()
}
