package sim

import "testing"

// Shrink minimises a failing tape by surgery (truncate, delete blocks, zero
// blocks, halve values), keeping a candidate only if it fails with the same
// violation signature. Option 0 of every choice is the boring one, so zeroing
// removes preemptions, faults and scenario elements.
func Shrink(t *testing.T, prop *Property, tier string, vals []uint32, sig string, budget int) ([]uint32, int) {
	tries := 0
	fails := func(c []uint32) bool {
		if tries >= budget {
			return false
		}
		tries++
		r := RunOne(t, prop, tier, NewReplayTape(c), false)
		return r.Viol != nil && r.Viol.Sig == sig && r.HErr == ""
	}
	cur := append([]uint32(nil), vals...)
	// drop trailing zeros (implicit)
	trim := func(c []uint32) []uint32 {
		for len(c) > 0 && c[len(c)-1] == 0 {
			c = c[:len(c)-1]
		}
		return c
	}
	cur = trim(cur)
	// 1. truncate by binary search
	lo, hi := 0, len(cur)
	for lo < hi && tries < budget {
		mid := (lo + hi) / 2
		if fails(cur[:mid]) {
			hi = mid
		} else {
			lo = mid + 1
		}
	}
	if hi < len(cur) && fails(cur[:hi]) {
		cur = trim(append([]uint32(nil), cur[:hi]...))
	}
	improved := true
	for improved && tries < budget {
		improved = false
		// 2. zero blocks
		for _, bs := range []int{64, 16, 4, 1} {
			for i := 0; i < len(cur) && tries < budget; i += bs {
				j := min(i+bs, len(cur))
				allz := true
				for _, v := range cur[i:j] {
					if v != 0 {
						allz = false
					}
				}
				if allz {
					continue
				}
				c := append([]uint32(nil), cur...)
				for k := i; k < j; k++ {
					c[k] = 0
				}
				if fails(c) {
					cur = trim(c)
					improved = true
				}
			}
		}
		// 3. delete blocks
		for _, bs := range []int{32, 8, 2, 1} {
			for i := 0; i+bs <= len(cur) && tries < budget; {
				c := append(append([]uint32(nil), cur[:i]...), cur[i+bs:]...)
				if fails(c) {
					cur = trim(c)
					improved = true
				} else {
					i += bs
				}
			}
		}
		// 4. reduce values
		for i := 0; i < len(cur) && tries < budget; i++ {
			if cur[i] > 1 {
				c := append([]uint32(nil), cur...)
				c[i] = cur[i] / 2
				if fails(c) {
					cur = c
					improved = true
				} else {
					c[i] = 1
					if fails(c) {
						cur = c
						improved = true
					}
				}
			}
		}
	}
	return cur, tries
}
