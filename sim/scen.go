package sim

import (
	"fmt"
	"time"
)

type Dir int

const (
	DirOut Dir = iota // corebgp dials
	DirIn             // the remote dials in
)

func (d Dir) String() string {
	if d == DirIn {
		return "in"
	}
	return "out"
}

const (
	StOpenSent = iota
	StOpenConfirm
	StEstablished
)

var stNames = []string{"OpenSent", "OpenConfirm", "Established"}

// Std1 describes the single-peer environment most wire-level properties use.
type Std1 struct {
	E       *Env
	P       *PeerH
	LocalID string
	Dir     Dir
}

type Std1Opts struct {
	Dir        Dir
	LocalID    string
	RemoteID   string
	LocalAS    uint32
	RemoteAS   uint32
	LocalHold  int
	RemoteHold uint16
	Passive    bool
	IdleHold   time.Duration
	Retry      time.Duration
	Configure  func(p *PeerH) // before AddPeer
	// Vary lets NewStd1 draw the things the property does not care about: IPv6
	// instead of IPv4, WithLocalAddress, a non-default port, 4-octet AS numbers.
	Vary bool
}

// NewStd1 builds a served one-peer environment. For DirIn the peer is passive
// or its outbound attempts are refused at once.
func NewStd1(w *World, o Std1Opts) *Std1 {
	if o.LocalID == "" {
		o.LocalID = "10.0.0.1"
		if o.Vary && o.RemoteID == "" && w.Chance(1, 2, "vary-dominance") {
			o.LocalID = "10.0.0.9" // the local speaker has the higher identifier
			w.Probe("config:local-identifier-higher")
		}
	}
	if o.RemoteID == "" {
		o.RemoteID = "10.0.0.2"
	}
	if o.LocalAS == 0 {
		o.LocalAS = 65001
	}
	if o.RemoteAS == 0 {
		o.RemoteAS = 65002
	}
	if o.IdleHold == 0 {
		o.IdleHold = 2 * time.Second
	}
	if o.Retry == 0 {
		o.Retry = 3 * time.Second
	}
	if o.IdleHold < 0 { // leave the library default
		o.IdleHold = 0
	}
	if o.Retry < 0 {
		o.Retry = 0
	}
	e := w.NewEnv(o.LocalID)
	if e == nil {
		return nil
	}
	remoteIP, localAddr, port, lisAddr := "10.0.0.2", "", 0, "10.0.0.1:179"
	if o.Vary {
		if w.Chance(1, 5, "vary-v6") {
			remoteIP, lisAddr = "fd00:1::2", "[fd00::1]:179"
			e.LocalIP = "fd00::1"
			w.Probe("config:ipv6-peer")
		}
		if w.Chance(1, 4, "vary-localaddr") {
			localAddr = e.LocalIP
			w.Probe("config:local-address")
		}
		if w.Chance(1, 4, "vary-port") {
			port = Pick(w, "vary-portv", 1179, 1, 65535)
			w.Probe("config:non-default-port")
		}
		switch w.Draw(6, "vary-as") {
		case 1:
			o.LocalAS = 4200000001
			w.Probe("config:4-octet-local-as")
		case 2:
			o.RemoteAS = 4200000002
			w.Probe("config:4-octet-remote-as")
		case 3:
			o.LocalAS = 23456
		}
		if w.Chance(1, 6, "vary-wildcard") {
			if e.LocalIP == "fd00::1" {
				lisAddr = "[::]:179"
			} else {
				lisAddr = Pick(w, "vary-wild", "0.0.0.0:179", "[::]:179")
			}
			w.Probe("config:wildcard-listener")
		}
	}
	p := e.NewPeer(PeerSpec{RemoteIP: remoteIP, LocalAS: o.LocalAS, RemoteAS: o.RemoteAS, Hold: o.LocalHold,
		IdleHold: o.IdleHold, ConnectRetry: o.Retry, Passive: o.Passive, LocalAddr: localAddr, Port: port}, o.RemoteID, o.RemoteHold)
	if o.Configure != nil {
		o.Configure(p)
	}
	if err := e.Add(p); err != nil {
		w.HarnessError("AddPeer: %v", err)
		return nil
	}
	if o.Dir == DirIn && !o.Passive {
		p.Site.DialPolicy = func(*DialRec) int { return 2 }
	}
	e.Serve(lisAddr)
	return &Std1{E: e, P: p, LocalID: o.LocalID, Dir: o.Dir}
}

// OpenConn obtains a fresh TCP connection: for DirOut it waits for corebgp's
// next dial and accepts it, for DirIn it dials in through the first listener.
func (e *Env) OpenConn(p *PeerH, dir Dir, timeout time.Duration) *Conn {
	w := e.w
	if dir == DirOut {
		d := p.Site.WaitDial(timeout)
		if d == nil {
			return nil
		}
		c := d.Accept()
		return c
	}
	if len(e.Lis) == 0 {
		w.HarnessError("OpenConn: no listener")
		return nil
	}
	dst := e.LocalIP
	if p.Spec.LocalAddr != "" {
		dst = p.Spec.LocalAddr
	}
	return w.Net.DialIn(e.Lis[0], p.Site, p.Spec.RemoteIP, dst)
}

// Advance drives a fresh connection to the given state from the remote side
// and returns the OPEN corebgp sent. On success the system is quiescent.
func (e *Env) Advance(p *PeerH, c *Conn, st int, timeout time.Duration) (*ParsedOpen, error) {
	w := e.w
	o := ExpectOpen(c, timeout)
	if o == nil {
		return nil, fmt.Errorf("no well-formed OPEN from corebgp on %s (frames=%d closed=%v)", c, c.NFrames(), c.LocalClosed())
	}
	w.Quiesce()
	if st == StOpenSent {
		return o, nil
	}
	if st == StEstablished && w.Chance(1, 5, "pipelined-handshake") {
		// a remote that does not wait for corebgp's KEEPALIVE: OPEN and KEEPALIVE
		// back to back in one stream
		nest := p.Plug.NEst
		c.SendSeg(append(p.Speaker.OpenFrame(), KeepaliveFrame()...))
		w.Probe("remote-pipelines-open-and-keepalive")
		if !w.WaitUntil("advance.est", timeout, func() bool { return p.Plug.NEst > nest && p.Plug.IsUp() }) {
			return o, fmt.Errorf("no OnEstablished after a pipelined OPEN+KEEPALIVE on %s (frames %s, closed=%v)", c, descFrames(c.AllFrames()), c.LocalClosed())
		}
		c.Cursor = c.NFrames()
		w.Quiesce()
		return o, nil
	}
	c.SendSeg(p.Speaker.OpenFrame())
	f := c.WaitFrame(timeout)
	if f == nil || f.Type != MsgKeepalive {
		return o, fmt.Errorf("no KEEPALIVE in reply to a good OPEN on %s (got %v)", c, f)
	}
	w.Quiesce()
	if st == StOpenConfirm {
		return o, nil
	}
	nest := p.Plug.NEst
	c.SendSeg(KeepaliveFrame())
	if !w.WaitUntil("advance.est", timeout, func() bool { return p.Plug.NEst > nest && p.Plug.IsUp() }) {
		return o, fmt.Errorf("no OnEstablished after the remote's KEEPALIVE on %s", c)
	}
	w.Quiesce()
	return o, nil
}

// NewFrames returns the frames corebgp wrote on c at or after index from.
func NewFrames(c *Conn, from int) []Frame {
	fs := c.AllFrames()
	if from > len(fs) {
		from = len(fs)
	}
	return fs[from:]
}

func descFrames(fs []Frame) string {
	s := "["
	for i := range fs {
		if i > 0 {
			s += " "
		}
		s += fs[i].String()
	}
	return s + "]"
}

// RandBytes draws n bytes from the tape.
func (w *World) RandBytes(n int, what string) []byte {
	b := make([]byte, n)
	for i := 0; i < n; {
		v := w.T.Draw(1<<24, what)
		for k := 0; k < 3 && i < n; k++ {
			b[i] = byte(v >> (8 * k))
			i++
		}
	}
	return b
}

// NotifDataLen draws the length of a plugin-made NOTIFICATION's data: mostly
// below small, sometimes one of the lengths around an octet's range and the
// largest that fits a message.
func (w *World) NotifDataLen(small int, what string) int {
	if n := Pick(w, what+"-class", -1, -1, -1, 255, 256, 1000, 4075); n >= 0 {
		return n
	}
	return w.Draw(small, what)
}

// FinishRun shuts the server down and applies the generic end-of-run checks
// every property shares: Close returns, no corebgp task is left, no panic.
func (e *Env) FinishRun() bool {
	w := e.w
	if !e.Shutdown(5 * time.Second) {
		// Only the properties whose statement includes "Close returns" judge this.
		if w.Prop == "C05" || w.Prop == "C10" {
			w.Violate(w.Prop+"/shutdown/close-did-not-return", "Server.Close/Serve did not return within 5 s of virtual time; alive: %s", w.aliveSummary())
		} else {
			w.Probe("close-stuck-not-judged-here")
		}
		return false
	}
	return true
}

// PriorSession runs one complete earlier session on the peer (Established,
// then ended by the remote with FIN, RST or Cease - none of which damps), so
// that what follows happens on a re-used outbound FSM object / a second
// inbound FSM rather than on a pristine peer. It reports whether it ran.
func (s *Std1) PriorSession(w *World) bool {
	if !w.Chance(1, 4, "prior-session") {
		return false
	}
	e, p := s.E, s.P
	c := e.OpenConn(p, s.Dir, time.Minute)
	if c == nil {
		return false
	}
	if _, err := e.Advance(p, c, StEstablished, time.Minute); err != nil {
		w.Probe("prior-session-failed")
		if !c.RemoteClosed() {
			c.FIN()
		}
		w.Quiesce()
		return false
	}
	c.SendSeg(MkFrame(MsgUpdate, []byte{0x50, 0x52, 0x49, 0x4f}))
	w.Quiesce()
	switch w.Draw(4, "prior-end") {
	case 0:
		c.FIN()
	case 1:
		c.RST()
	case 2:
		c.Deliver(MkNotif(6, 4, nil))
		w.Quiesce()
		c.FIN()
	default:
		// a protocol error: the peer is held down for 60 s; wait it out
		m := AllOnes()
		m[3] = 0
		c.Deliver(MkRawHeader(m, 19, 4, nil))
		w.Quiesce()
		c.FIN()
		w.Sleep(61 * time.Second)
		w.Probe("prior-session-damped")
	}
	w.WaitUntil("prior.down", time.Minute, p.Plug.IsDown)
	w.Quiesce()
	w.Probe("prior-session")
	return true
}
