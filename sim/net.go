package sim

import (
	"context"
	"encoding/binary"
	"errors"
	"fmt"
	"io"
	"net"
	"os"
	"strings"
	"sync"
	"syscall"
	"time"

	"simrt"
)

// Addr is a TCP-shaped address ("ip:port").
type Addr string

func (a Addr) Network() string { return "tcp" }
func (a Addr) String() string  { return string(a) }
func (a Addr) Host() string {
	h, _, err := net.SplitHostPort(string(a))
	if err != nil {
		return string(a)
	}
	return h
}

var errReset = &net.OpError{Op: "read", Net: "tcp", Err: syscall.ECONNRESET}
var errPipe = &net.OpError{Op: "write", Net: "tcp", Err: syscall.EPIPE}
var errRefused = &net.OpError{Op: "dial", Net: "tcp", Err: syscall.ECONNREFUSED}

// Frame is one BGP message corebgp wrote, as the remote side sees it.
type Frame struct {
	Type     byte
	Body     []byte
	Seq      uint64
	At       time.Duration
	Task     string
	WriteIdx int
	AfterFIN bool
}

func (f *Frame) String() string {
	if f.Type == 3 && len(f.Body) >= 2 {
		return fmt.Sprintf("NOTIFICATION(%d,%d,%x)", f.Body[0], f.Body[1], f.Body[2:])
	}
	names := map[byte]string{1: "OPEN", 2: "UPDATE", 3: "NOTIFICATION", 4: "KEEPALIVE"}
	return fmt.Sprintf("%s[%d]", names[f.Type], len(f.Body))
}

// IsNotif reports whether f is a NOTIFICATION with the given code (and subcode if sub >= 0).
func (f *Frame) IsNotif(code, sub int) bool {
	if f.Type != 3 || len(f.Body) < 2 || int(f.Body[0]) != code {
		return false
	}
	return sub < 0 || int(f.Body[1]) == sub
}

// Conn is a simulated TCP connection. The "local" side is corebgp.
type Conn struct {
	w       *World
	ID      int
	Inbound bool // opened by the remote towards corebgp's listener
	LAddr   Addr // as corebgp sees it
	RAddr   Addr
	Site    *Site

	mu sync.Mutex
	// remote -> corebgp
	rbuf      []byte
	rFIN      bool
	rRST      bool
	rwait     chan struct{}
	rdl       time.Time // read deadline
	Delivered int
	Consumed  int
	RFinSeq   uint64
	RFinAt    time.Duration
	// corebgp -> remote
	Out         []byte
	Frames      []Frame
	parsed      int
	EOFWithData bool   // Read hands out the last bytes together with io.EOF
	Malformed   string // first framing fault in the outbound stream (sticky)
	// back-pressure (the remote stops reading)
	writing     bool
	wStalled    bool
	wWindow     int
	wwait       []chan struct{}
	wdl         time.Time
	WriteStalls int
	StallAt     []time.Duration
	ResumeAt    []time.Duration
	NWrites     int
	WriteErrs   int
	// lifecycle
	Handed     bool // returned to corebgp by Accept or by the dialler
	HandedSeq  uint64
	LClosed    bool // corebgp called Close
	LCloseSeq  uint64
	LCloseAt   time.Duration
	LCloseTask string
	NCloses    int
	WriteFail  bool // injected: every Write fails
	Cursor     int  // script-side read cursor into Frames
	FirstWrite time.Duration
	Dial       *DialRec
	CreatedAt  time.Duration
	DualStack  bool            // accepted on a dual-stack wildcard listener ([::]): IPv4 addresses appear IPv4-mapped
	Tainted    bool            // the remote (or the plugin) misbehaved on this connection
	RecvTimes  []time.Duration // completion times of deliveries
	ownerTask  string          // task that made the first write (the FSM that owns the conn)
	OpenCBs    int             // OnOpenMessage callbacks attributed to this connection
	CapsCalls  int             // GetCapabilities callbacks attributed to this connection
	OpenSentAt time.Duration
	OpenSeq    uint64
}

// Owner returns the id of the task that wrote first on this connection.
func (c *Conn) Owner() string { return c.ownerTask }

func (c *Conn) String() string {
	d := "out"
	if c.Inbound {
		d = "in"
	}
	return fmt.Sprintf("c%d(%s)", c.ID, d)
}

func (c *Conn) wakeReader() {
	if c.rwait != nil {
		close(c.rwait)
		c.rwait = nil
	}
}

// ---- net.Conn, the side corebgp uses ----

func (c *Conn) Read(b []byte) (int, error) {
	simrt.Yield("conn.read")
	for {
		c.mu.Lock()
		if c.LClosed {
			c.mu.Unlock()
			return 0, net.ErrClosed
		}
		if len(c.rbuf) > 0 {
			n := copy(b, c.rbuf)
			c.rbuf = c.rbuf[n:]
			c.Consumed += n
			if c.EOFWithData && len(c.rbuf) == 0 && c.rFIN && !c.rRST {
				// legal for an io.Reader (not what a TCP socket does): the last bytes come
				// together with the end of the stream
				c.mu.Unlock()
				c.w.Fault("read-returns-data-with-eof")
				return n, io.EOF
			}
			c.mu.Unlock()
			return n, nil
		}
		if c.rRST {
			c.mu.Unlock()
			return 0, errReset
		}
		if c.rFIN {
			c.mu.Unlock()
			return 0, io.EOF
		}
		dl := c.rdl
		if !dl.IsZero() && !time.Now().Before(dl) {
			c.mu.Unlock()
			return 0, &net.OpError{Op: "read", Net: "tcp", Err: os.ErrDeadlineExceeded}
		}
		wk := make(chan struct{})
		c.rwait = wk
		c.mu.Unlock()
		if dl.IsZero() {
			simrt.BlockOn("conn.read.wait", wk)
			continue
		}
		// a read deadline is set: wake up at the deadline too
		d := time.Until(dl)
		if s := simrt.Active(); s != nil {
			d += s.UniqueOffset(d, 0)
		}
		fired := make(chan struct{})
		tm := time.AfterFunc(d, func() { close(fired) })
		simrt.BlockOn2("conn.read.wait", wk, fired)
		tm.Stop()
	}
}

func (c *Conn) Write(b []byte) (int, error) {
	simrt.Yield("conn.write")
	task := simrt.CurrentID()
	written := 0
	// Like the net package, one Write call at a time per connection: the bytes of a
	// call that has to wait for the remote stay contiguous.
	mine := false
	defer func() {
		if mine {
			c.mu.Lock()
			c.writing = false
			c.wakeWriters()
			c.mu.Unlock()
		}
	}()
	for {
		c.mu.Lock()
		if c.LClosed {
			c.WriteErrs++
			c.mu.Unlock()
			c.w.Ev("%s write on closed conn by %s", c, task)
			c.w.Net.noteWrite(c, task, false)
			return written, net.ErrClosed
		}
		if c.writing && !mine {
			wk := make(chan struct{})
			c.wwait = append(c.wwait, wk)
			c.mu.Unlock()
			simrt.BlockOn("conn.write.lock", wk)
			continue
		}
		c.writing, mine = true, true
		if c.rRST || c.WriteFail {
			c.WriteErrs++
			c.mu.Unlock()
			c.w.Ev("%s write fails (reset) by %s", c, task)
			c.w.Net.noteWrite(c, task, false)
			return written, errPipe
		}
		// back-pressure: a remote that has stopped reading accepts wWindow more bytes
		room := len(b) - written
		if c.wStalled && room > c.wWindow {
			room = c.wWindow
		}
		if room > 0 || len(b) == 0 {
			chunk := b[written : written+room]
			first := c.NWrites == 0
			if first {
				c.FirstWrite = c.w.Now()
				c.ownerTask = task
			}
			c.NWrites++
			c.Out = append(c.Out, chunk...)
			if c.wStalled {
				c.wWindow -= room
			}
			seq := c.w.Ev("%s write %d bytes by %s: %x", c, len(chunk), task, clip(chunk, 48))
			c.parse(seq, task)
			if first && len(c.Frames) > 0 && c.Frames[0].Type == MsgOpen {
				c.OpenSentAt = c.w.Now()
				c.OpenSeq = seq
				c.w.Net.noteWrite(c, task, true)
			} else {
				c.w.Net.noteWrite(c, task, false)
			}
			written += room
		}
		if written == len(b) {
			c.mu.Unlock()
			return written, nil
		}
		// the rest has to wait until the remote reads again, the write deadline passes
		// or the connection goes away
		dl := c.wdl
		if !dl.IsZero() && !time.Now().Before(dl) {
			c.WriteErrs++
			c.mu.Unlock()
			c.w.Ev("%s write deadline exceeded after %d of %d bytes by %s", c, written, len(b), task)
			return written, &net.OpError{Op: "write", Net: "tcp", Err: os.ErrDeadlineExceeded}
		}
		wk := make(chan struct{})
		c.wwait = append(c.wwait, wk)
		c.WriteStalls++
		c.mu.Unlock()
		c.w.Fault("write-blocked-by-back-pressure")
		if dl.IsZero() {
			simrt.BlockOn("conn.write.wait", wk)
			continue
		}
		d := time.Until(dl)
		if s := simrt.Active(); s != nil {
			d += s.UniqueOffset(d, 0)
		}
		fired := make(chan struct{})
		tm := time.AfterFunc(d, func() { close(fired) })
		simrt.BlockOn2("conn.write.wait", wk, fired)
		tm.Stop()
	}
}

func (c *Conn) wakeWriters() {
	for _, wk := range c.wwait {
		close(wk)
	}
	c.wwait = nil
}

// StallWrites makes the remote stop reading: corebgp's writes are accepted for
// another window bytes (the socket buffers) and then block.
func (c *Conn) StallWrites(window int) {
	c.mu.Lock()
	c.wStalled, c.wWindow = true, window
	c.StallAt = append(c.StallAt, c.w.Now())
	c.mu.Unlock()
	c.w.Ev("%s remote stops reading (window %d bytes)", c, window)
	c.w.Fault("remote-stops-reading")
}

// ResumeWrites makes the remote read again.
func (c *Conn) ResumeWrites() {
	c.mu.Lock()
	if c.wStalled {
		c.wStalled = false
		c.ResumeAt = append(c.ResumeAt, c.w.Now())
		c.wakeWriters()
	}
	c.mu.Unlock()
	c.w.Ev("%s remote reads again", c)
}

// StreamFault is the first framing fault of the outbound stream; once the
// stream has ended (or at the end of a run) a trailing partial message is one.
func (c *Conn) StreamFault(ended bool) string {
	c.mu.Lock()
	defer c.mu.Unlock()
	if c.Malformed != "" {
		return c.Malformed
	}
	// (a write cut short by the end of a connection whose remote had stopped reading
	// is TCP's doing, not corebgp's)
	if ended && c.parsed != len(c.Out) && len(c.StallAt) == 0 {
		return fmt.Sprintf("the stream ends with a partial message (%d trailing bytes)", len(c.Out)-c.parsed)
	}
	return ""
}

func clip(b []byte, n int) []byte {
	if len(b) > n {
		return b[:n]
	}
	return b
}

// parse is the strict frame parser for the outbound stream (c.mu held).
func (c *Conn) parse(seq uint64, task string) {
	for c.Malformed == "" && len(c.Out)-c.parsed >= 19 {
		h := c.Out[c.parsed:]
		for i := 0; i < 16; i++ {
			if h[i] != 0xff {
				c.Malformed = fmt.Sprintf("marker octet %d is %#x at stream offset %d", i, h[i], c.parsed)
				return
			}
		}
		l := int(binary.BigEndian.Uint16(h[16:18]))
		if l < 19 || l > 4096 {
			c.Malformed = fmt.Sprintf("length field %d at stream offset %d", l, c.parsed)
			return
		}
		if h[18] < 1 || h[18] > 4 {
			c.Malformed = fmt.Sprintf("message type %d at stream offset %d", h[18], c.parsed)
			return
		}
		if len(h) < l {
			return
		}
		if h[18] == 4 && l != 19 {
			c.Malformed = fmt.Sprintf("KEEPALIVE with length %d at stream offset %d", l, c.parsed)
			return
		}
		if h[18] == 3 && l < 21 {
			c.Malformed = fmt.Sprintf("NOTIFICATION with length %d at stream offset %d", l, c.parsed)
			return
		}
		body := append([]byte(nil), h[19:l]...)
		c.Frames = append(c.Frames, Frame{Type: h[18], Body: body, Seq: seq, At: c.w.Now(), Task: task,
			WriteIdx: c.NWrites, AfterFIN: c.rFIN})
		c.parsed += l
	}
}

func (c *Conn) Close() error {
	simrt.Yield("conn.close")
	task := simrt.CurrentID()
	c.w.Net.noteWrite(c, task, false)
	c.mu.Lock()
	c.NCloses++
	if !c.LClosed {
		c.LClosed = true
		c.LCloseAt = c.w.Now()
		c.LCloseTask = task
		c.wakeReader()
		c.wakeWriters()
		c.mu.Unlock()
		c.LCloseSeq = c.w.Ev("%s closed by corebgp task %s", c, task)
		return nil
	}
	c.mu.Unlock()
	return nil
}

// LocalAddr / RemoteAddr return real *net.TCPAddr values, shaped like the ones
// the net package produces: a 4-byte IP for an IPv4 socket, a 16-byte
// (IPv4-mapped) IP for an IPv4 connection accepted on a dual-stack wildcard
// listener.
func (c *Conn) LocalAddr() net.Addr  { return c.tcpAddr(c.LAddr) }
func (c *Conn) RemoteAddr() net.Addr { return c.tcpAddr(c.RAddr) }

func (c *Conn) tcpAddr(a Addr) net.Addr {
	h, ps, err := net.SplitHostPort(string(a))
	if err != nil {
		return a
	}
	ip := net.ParseIP(h)
	if ip == nil {
		return a
	}
	if v4 := ip.To4(); v4 != nil && !c.DualStack && !strings.Contains(h, ":") {
		ip = v4
	}
	port := 0
	fmt.Sscanf(ps, "%d", &port)
	return &net.TCPAddr{IP: ip, Port: port}
}

// Deadlines are honoured (a blocked Read or Write wakes up and re-evaluates when
// its deadline is changed). Write only ever blocks while the remote has stopped
// reading (StallWrites).
func (c *Conn) SetDeadline(t time.Time) error {
	c.SetWriteDeadline(t)
	return c.SetReadDeadline(t)
}
func (c *Conn) SetReadDeadline(t time.Time) error {
	c.mu.Lock()
	c.rdl = t
	c.wakeReader()
	c.mu.Unlock()
	return nil
}
func (c *Conn) SetWriteDeadline(t time.Time) error {
	c.mu.Lock()
	c.wdl = t
	c.wakeWriters()
	c.mu.Unlock()
	return nil
}

// ---- the remote side (used by scripts and oracles) ----

// Deliver makes b readable by corebgp.
func (c *Conn) Deliver(b []byte) {
	c.mu.Lock()
	if c.rFIN || c.rRST {
		c.mu.Unlock()
		return
	}
	c.rbuf = append(c.rbuf, b...)
	c.Delivered += len(b)
	c.RecvTimes = append(c.RecvTimes, c.w.Now())
	c.wakeReader()
	c.mu.Unlock()
	c.w.Ev("%s deliver %d bytes: %x", c, len(b), clip(b, 32))
}

// FIN closes the remote's sending half (and the remote stops caring).
func (c *Conn) FIN() {
	c.mu.Lock()
	if c.rFIN || c.rRST {
		c.mu.Unlock()
		return
	}
	c.rFIN = true
	if !c.LClosed {
		c.Tainted = true
	}
	c.RFinAt = c.w.Now()
	c.wakeReader()
	c.mu.Unlock()
	c.RFinSeq = c.w.Ev("%s remote FIN", c)
	c.w.Fault("fin")
}

// RST resets the connection: pending data is lost, reads and writes fail.
func (c *Conn) RST() {
	c.mu.Lock()
	if c.rRST {
		c.mu.Unlock()
		return
	}
	c.rRST = true
	if !c.LClosed {
		c.Tainted = true
	}
	c.rbuf = nil
	c.RFinAt = c.w.Now()
	c.wakeReader()
	c.wakeWriters()
	c.mu.Unlock()
	c.RFinSeq = c.w.Ev("%s remote RST", c)
	c.w.Fault("rst")
}

func (c *Conn) RemoteClosed() bool {
	c.mu.Lock()
	defer c.mu.Unlock()
	return c.rFIN || c.rRST
}

func (c *Conn) LocalClosed() bool {
	c.mu.Lock()
	defer c.mu.Unlock()
	return c.LClosed
}

func (c *Conn) NFrames() int {
	c.mu.Lock()
	defer c.mu.Unlock()
	return len(c.Frames)
}

func (c *Conn) FrameAt(i int) *Frame {
	c.mu.Lock()
	defer c.mu.Unlock()
	if i < 0 || i >= len(c.Frames) {
		return nil
	}
	f := c.Frames[i]
	return &f
}

func (c *Conn) AllFrames() []Frame {
	c.mu.Lock()
	defer c.mu.Unlock()
	return append([]Frame(nil), c.Frames...)
}

func (c *Conn) OutLen() int {
	c.mu.Lock()
	defer c.mu.Unlock()
	return len(c.Out)
}

func (c *Conn) Unread() int {
	c.mu.Lock()
	defer c.mu.Unlock()
	return len(c.rbuf)
}

// Next returns the next unread frame if any.
func (c *Conn) Next() *Frame {
	c.mu.Lock()
	defer c.mu.Unlock()
	if c.Cursor < len(c.Frames) {
		f := c.Frames[c.Cursor]
		c.Cursor++
		return &f
	}
	return nil
}

// WaitFrame waits for the next frame corebgp writes. It returns nil when
// corebgp closed the connection or the timeout elapsed first.
func (c *Conn) WaitFrame(timeout time.Duration) *Frame {
	c.w.WaitUntil("waitframe", timeout, func() bool {
		c.mu.Lock()
		defer c.mu.Unlock()
		return c.Cursor < len(c.Frames) || c.LClosed
	})
	return c.Next()
}

// SendSeg delivers b to corebgp cut into segments chosen from the tape, with
// schedule points (and sometimes virtual delays) between the segments.
func (c *Conn) SendSeg(b []byte) {
	w := c.w
	mode := w.Draw(6, "segmode")
	if len(b) == 0 {
		return
	}
	switch mode {
	case 0: // whole
		c.Deliver(b)
		return
	case 1: // bytewise prefix then rest
		n := w.Range(1, min(len(b), 24), "segbytes")
		for i := 0; i < n; i++ {
			c.Deliver(b[i : i+1])
			simrt.Yield("seg")
		}
		if n < len(b) {
			c.Deliver(b[n:])
		}
		return
	}
	for len(b) > 0 {
		var n int
		switch mode {
		case 2: // cut inside the (first) header
			n = w.Range(1, min(len(b), 19), "seglen")
			mode = 3
		case 3: // random cuts
			n = w.Range(1, len(b), "seglen")
		case 4: // small chunks
			n = w.Range(1, min(len(b), 40), "seglen")
		default: // two pieces
			n = w.Range(1, len(b), "seglen")
			mode = 0
		}
		if mode == 0 {
			c.Deliver(b[:n])
			simrt.Yield("seg")
			if n < len(b) {
				c.Deliver(b[n:])
			}
			return
		}
		c.Deliver(b[:n])
		b = b[n:]
		if len(b) > 0 {
			if !w.NoStall && w.Chance(1, 12, "segdelay") {
				w.Fault("segment-delay")
				w.Sleep(time.Duration(w.Range(1, 400, "segdelayms")) * time.Millisecond)
			} else {
				simrt.Yield("seg")
			}
		}
	}
}

// ---- listener ----

type Listener struct {
	w         *World
	ID        int
	A         Addr
	mu        sync.Mutex
	q         []*Conn
	closed    bool
	wait      chan struct{}
	acceptErr error
	Accepts   int
	ClosedSeq uint64
}

func (l *Listener) wake() {
	if l.wait != nil {
		close(l.wait)
		l.wait = nil
	}
}

func (l *Listener) Accept() (net.Conn, error) {
	simrt.Yield("listener.accept")
	for {
		l.mu.Lock()
		if l.closed {
			l.mu.Unlock()
			return nil, net.ErrClosed
		}
		if l.acceptErr != nil {
			err := l.acceptErr
			l.acceptErr = nil
			l.mu.Unlock()
			l.w.Ev("listener %d accept error %v", l.ID, err)
			return nil, err
		}
		if len(l.q) > 0 {
			c := l.q[0]
			l.q = l.q[1:]
			l.Accepts++
			l.mu.Unlock()
			c.Handed = true
			c.HandedSeq = l.w.Ev("listener %d accept -> %s %s<-%s", l.ID, c, c.LAddr, c.RAddr)
			return c, nil
		}
		wk := make(chan struct{})
		l.wait = wk
		l.mu.Unlock()
		simrt.BlockOn("listener.accept.wait", wk)
	}
}

func (l *Listener) Close() error {
	simrt.Yield("listener.close")
	l.mu.Lock()
	if !l.closed {
		l.closed = true
		l.wake()
		l.mu.Unlock()
		l.ClosedSeq = l.w.Ev("listener %d closed", l.ID)
		return nil
	}
	l.mu.Unlock()
	return nil
}

func (l *Listener) Addr() net.Addr { return l.A }

// InjectAcceptError makes the next Accept fail.
func (l *Listener) InjectAcceptError(err error) {
	l.mu.Lock()
	l.acceptErr = err
	l.wake()
	l.mu.Unlock()
	l.w.Fault("accept-error")
}

func (l *Listener) IsClosed() bool {
	l.mu.Lock()
	defer l.mu.Unlock()
	return l.closed
}

// ---- dialling ----

type DialRec struct {
	w         *World
	ID        int
	At        time.Duration
	Seq       uint64
	Addr      string
	LocalAddr string
	Task      string
	Site      *Site
	Controls  int
	mu        sync.Mutex
	decided   chan struct{}
	decision  int // 0 pending, 1 accept, 2 refuse
	conn      *Conn
	Returned  bool
	RetAt     time.Duration
	RetSeq    uint64
	Outcome   string // "conn", "refused", "cancelled"
	Cancelled bool
	Taken     bool // a script has picked this record up
}

type fakeRawConn struct{}

func (fakeRawConn) Control(f func(fd uintptr)) error { return nil }
func (fakeRawConn) Read(f func(fd uintptr) (done bool)) error {
	return errors.New("not supported")
}
func (fakeRawConn) Write(f func(fd uintptr) (done bool)) error {
	return errors.New("not supported")
}

// Pending reports whether the attempt still waits for the remote's decision.
func (d *DialRec) Pending() bool {
	d.mu.Lock()
	defer d.mu.Unlock()
	return d.decision == 0 && !d.Returned
}

// Accept completes the TCP handshake; the connection is returned to corebgp
// when the dialling task next runs.
func (d *DialRec) Accept() *Conn {
	d.mu.Lock()
	if d.decision != 0 || d.Returned {
		d.mu.Unlock()
		return nil
	}
	w := d.w
	c := w.Net.newConn(false, Addr(d.LocalAddr), Addr(d.Addr), d.Site)
	c.Dial = d
	d.conn = c
	d.decision = 1
	close(d.decided)
	d.mu.Unlock()
	w.Ev("dial %d accepted by remote -> %s", d.ID, c)
	return c
}

func (d *DialRec) Refuse() {
	d.mu.Lock()
	if d.decision != 0 || d.Returned {
		d.mu.Unlock()
		return
	}
	d.decision = 2
	close(d.decided)
	d.mu.Unlock()
	d.w.Ev("dial %d refused by remote", d.ID)
	d.w.Fault("dial-refused")
}

func (d *DialRec) Conn() *Conn {
	d.mu.Lock()
	defer d.mu.Unlock()
	return d.conn
}

// Site is a remote BGP speaker's host: one per configured peer address.
type Site struct {
	w     *World
	Name  string
	IP    string // the address corebgp dials / sees as source
	Dials []*DialRec
	Conns []*Conn
	// DialPolicy decides an attempt at the instant it is made (in the dialling
	// task): 0 leave pending for a script, 1 accept, 2 refuse.
	DialPolicy func(d *DialRec) int
	// OnConn, if set, is called (in a new harness task) for every connection
	// the policy accepted.
	OnConn func(c *Conn)
}

// Net is the simulated network.
type Net struct {
	w         *World
	mu        sync.Mutex
	Conns     []*Conn
	Listeners []*Listener
	Sites     map[string]*Site // by IP
	Dials     []*DialRec
	nextPort  int
	LocalIP   string
	// capsPending counts GetCapabilities calls per task since that task last
	// touched (wrote to / closed) a connection: exactly one must precede an OPEN.
	capsPending map[string]int
	CapsOracle  bool
	// CurDial is the attempt whose Control callback is executing.
	CurDial *DialRec
}

// noteCaps is called when a GetCapabilities callback returns.
func (n *Net) noteCaps(task string) {
	n.mu.Lock()
	n.capsPending[task]++
	n.mu.Unlock()
}

// noteWrite is called for every write attempt / close by a task. The
// GetCapabilities calls the task made since it last touched a connection are
// attributed to this connection: a connection gets at most one, and exactly one
// must precede its OPEN.
func (n *Net) noteWrite(c *Conn, task string, isOpen bool) {
	n.mu.Lock()
	k := n.capsPending[task]
	n.capsPending[task] = 0
	c.CapsCalls += k
	total := c.CapsCalls
	n.mu.Unlock()
	if !n.CapsOracle {
		return
	}
	if isOpen && total != 1 {
		n.w.Violate(n.w.Prop+"/callbacks/getcapabilities-count", "OPEN written on %s by task %s after %d GetCapabilities calls for that connection (want exactly 1)", c, task, total)
	} else if total > 1 {
		n.w.Violate(n.w.Prop+"/callbacks/getcapabilities-count", "GetCapabilities was invoked %d times for connection %s (task %s)", total, c, task)
	}
}

func newNet(w *World) *Net {
	return &Net{w: w, Sites: map[string]*Site{}, nextPort: 40000, LocalIP: "10.0.0.1", capsPending: map[string]int{}}
}

func (n *Net) newConn(inbound bool, l, r Addr, s *Site) *Conn {
	n.mu.Lock()
	c := &Conn{w: n.w, ID: len(n.Conns), Inbound: inbound, LAddr: l, RAddr: r, Site: s, CreatedAt: n.w.Now()}
	c.EOFWithData = n.w.Draw(4, "eof-with-data") == 3
	n.Conns = append(n.Conns, c)
	if s != nil {
		s.Conns = append(s.Conns, c)
	}
	n.mu.Unlock()
	return c
}

func (n *Net) NewListener(addr string) *Listener {
	n.mu.Lock()
	defer n.mu.Unlock()
	l := &Listener{w: n.w, ID: len(n.Listeners), A: Addr(addr)}
	n.Listeners = append(n.Listeners, l)
	return l
}

func (n *Net) NewSite(name, ip string) *Site {
	n.mu.Lock()
	defer n.mu.Unlock()
	s := &Site{w: n.w, Name: name, IP: ip}
	n.Sites[ip] = s
	return s
}

func (n *Net) port() int {
	n.nextPort++
	return n.nextPort
}

// DialIn opens a connection from src (ip) to dstIP:179 through listener l.
func (n *Net) DialIn(l *Listener, s *Site, srcIP, dstIP string) *Conn {
	n.mu.Lock()
	p := n.port()
	n.mu.Unlock()
	c := n.newConn(true, Addr(net.JoinHostPort(dstIP, "179")), Addr(net.JoinHostPort(srcIP, fmt.Sprint(p))), s)
	c.DualStack = l.A.Host() == "::"
	n.w.Ev("remote %s dials in -> %s via listener %d", srcIP, c, l.ID)
	l.mu.Lock()
	l.q = append(l.q, c)
	l.wake()
	l.mu.Unlock()
	return c
}

func (n *Net) dial(ctx context.Context, d *net.Dialer, network, address string) (net.Conn, error) {
	w := n.w
	host, _, _ := net.SplitHostPort(address)
	n.mu.Lock()
	site := n.Sites[host]
	lip := n.LocalIP
	if d.LocalAddr != nil {
		if h, _, err := net.SplitHostPort(d.LocalAddr.String()); err == nil {
			lip = h
		}
	} else if ip := net.ParseIP(host); ip != nil && ip.To4() == nil {
		lip = "fd00::1"
	}
	rec := &DialRec{w: w, ID: len(n.Dials), At: w.Now(), Addr: address,
		LocalAddr: net.JoinHostPort(lip, fmt.Sprint(n.port())), Task: simrt.CurrentID(), Site: site,
		decided: make(chan struct{})}
	n.Dials = append(n.Dials, rec)
	if site != nil {
		site.Dials = append(site.Dials, rec)
	}
	n.mu.Unlock()
	la := "-"
	if d.LocalAddr != nil {
		la = d.LocalAddr.String()
	}
	rec.Seq = w.Ev("dial %d (%s) to %s laddr=%s by %s", rec.ID, network, address, la, rec.Task)
	// what the operating system would refuse outright
	if err := n.dialSanity(d, network, host); err != nil {
		w.Ev("dial %d fails: %v", rec.ID, err)
		w.Fault("dial-refused-by-the-os")
		return n.dialRet(rec, nil, err, "os-error")
	}
	if d.Control != nil {
		rec.Controls++
		n.mu.Lock()
		n.CurDial = rec
		n.mu.Unlock()
		if err := d.Control(network, address, fakeRawConn{}); err != nil {
			return n.dialRet(rec, nil, err, "control-error")
		}
	}
	select {
	case <-ctx.Done():
		return n.dialRet(rec, nil, ctx.Err(), "cancelled")
	default:
	}
	if site == nil {
		return n.dialRet(rec, nil, n.dialErr(), "refused")
	}
	if site.DialPolicy != nil {
		switch site.DialPolicy(rec) {
		case 1:
			c := rec.Accept()
			if site.OnConn != nil && c != nil {
				w.Go("onconn", func() { site.OnConn(c) })
			}
		case 2:
			rec.Refuse()
		}
	}
	rec.mu.Lock()
	dec := rec.decision
	rec.mu.Unlock()
	if dec == 0 {
		if simrt.BlockOn2("dial.wait", rec.decided, ctx.Done()) == 1 {
			rec.mu.Lock()
			rec.Cancelled = true
			rec.mu.Unlock()
			return n.dialRet(rec, nil, ctx.Err(), "cancelled")
		}
	}
	rec.mu.Lock()
	dec = rec.decision
	c := rec.conn
	rec.mu.Unlock()
	if dec == 1 {
		// the TCP handshake completed; the dialler returns it when next scheduled
		simrt.Yield("dial.connected")
		c.Handed = true
		return n.dialRet(rec, c, nil, "conn")
	}
	return n.dialRet(rec, nil, n.dialErr(), "refused")
}

// dialSanity mirrors the checks of the net package and the kernel that do not
// depend on the remote: the network must fit the address families, and an
// explicit local port must not be taken by one of the process's own listeners.
func (n *Net) dialSanity(d *net.Dialer, network, host string) error {
	rip := net.ParseIP(stripZone(host))
	v6 := rip != nil && rip.To4() == nil
	switch network {
	case "tcp":
	case "tcp4":
		if v6 {
			return &net.OpError{Op: "dial", Net: network, Err: &net.AddrError{Err: "no suitable address found", Addr: host}}
		}
	case "tcp6":
		if rip != nil && !v6 {
			return &net.OpError{Op: "dial", Net: network, Err: &net.AddrError{Err: "no suitable address found", Addr: host}}
		}
	default:
		return &net.OpError{Op: "dial", Net: network, Err: net.UnknownNetworkError(network)}
	}
	la, ok := d.LocalAddr.(*net.TCPAddr)
	if !ok || la == nil {
		return nil
	}
	if la.IP != nil && rip != nil && (la.IP.To4() == nil) != v6 {
		return &net.OpError{Op: "dial", Net: network, Err: &net.AddrError{Err: "mismatched local address type", Addr: la.String()}}
	}
	if la.Port != 0 {
		n.mu.Lock()
		ls := append([]*Listener(nil), n.Listeners...)
		n.mu.Unlock()
		for _, l := range ls {
			lh, lp, _ := net.SplitHostPort(string(l.A))
			l.mu.Lock()
			open := !l.closed
			l.mu.Unlock()
			if open && lp == fmt.Sprint(la.Port) && (lh == la.IP.String() || lh == "0.0.0.0" || lh == "::") {
				return &net.OpError{Op: "dial", Net: network, Err: syscall.EADDRINUSE}
			}
		}
	}
	return nil
}

func stripZone(h string) string {
	if i := strings.IndexByte(h, '%'); i >= 0 {
		return h[:i]
	}
	return h
}

type timeoutErr struct{}

func (timeoutErr) Error() string   { return "i/o timeout" }
func (timeoutErr) Timeout() bool   { return true }
func (timeoutErr) Temporary() bool { return true }

// dialErr is the error of an attempt that fails without a connection: mostly
// "connection refused", sometimes one of the other errors a dial meets (no
// route, address not available, timeout). To corebgp they are all a failed attempt.
func (n *Net) dialErr() error {
	switch n.w.Draw(8, "dialerr") {
	case 4:
		n.w.Fault("dial-error:enetunreach")
		return &net.OpError{Op: "dial", Net: "tcp", Err: syscall.ENETUNREACH}
	case 5:
		n.w.Fault("dial-error:eaddrnotavail")
		return &net.OpError{Op: "dial", Net: "tcp", Err: syscall.EADDRNOTAVAIL}
	case 6:
		n.w.Fault("dial-error:ehostunreach")
		return &net.OpError{Op: "dial", Net: "tcp", Err: syscall.EHOSTUNREACH}
	case 7:
		n.w.Fault("dial-error:timeout")
		return &net.OpError{Op: "dial", Net: "tcp", Err: timeoutErr{}}
	}
	return errRefused
}

func (n *Net) dialRet(rec *DialRec, c *Conn, err error, outcome string) (net.Conn, error) {
	rec.mu.Lock()
	rec.Returned = true
	rec.Outcome = outcome
	rec.RetAt = n.w.Now()
	rec.mu.Unlock()
	rec.RetSeq = n.w.Ev("dial %d returns %s", rec.ID, outcome)
	if c != nil {
		c.HandedSeq = rec.RetSeq
		return c, nil
	}
	return nil, err
}

// WaitDial waits for the next dial attempt towards this site that no script
// has taken yet.
func (s *Site) WaitDial(timeout time.Duration) *DialRec {
	var got *DialRec
	find := func() bool {
		s.w.Net.mu.Lock()
		defer s.w.Net.mu.Unlock()
		for _, d := range s.Dials {
			if !d.Taken {
				got = d
				return true
			}
		}
		return false
	}
	if !s.w.WaitUntil("waitdial", timeout, find) {
		return nil
	}
	got.Taken = true
	return got
}

// NDials returns the number of attempts recorded so far.
func (s *Site) NDials() int {
	s.w.Net.mu.Lock()
	defer s.w.Net.mu.Unlock()
	return len(s.Dials)
}

func (s *Site) DialList() []*DialRec {
	s.w.Net.mu.Lock()
	defer s.w.Net.mu.Unlock()
	return append([]*DialRec(nil), s.Dials...)
}

func (s *Site) ConnList() []*Conn {
	s.w.Net.mu.Lock()
	defer s.w.Net.mu.Unlock()
	return append([]*Conn(nil), s.Conns...)
}

func (n *Net) AllConns() []*Conn {
	n.mu.Lock()
	defer n.mu.Unlock()
	return append([]*Conn(nil), n.Conns...)
}

func (n *Net) AllDials() []*DialRec {
	n.mu.Lock()
	defer n.mu.Unlock()
	return append([]*DialRec(nil), n.Dials...)
}
