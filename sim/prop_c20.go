package sim

import (
	"errors"
	"fmt"
	"net"
	"net/netip"
	"sort"
	"strings"
	"syscall"
	"time"

	"github.com/anishathalye/porcupine"
	"github.com/jwhited/corebgp"
)

// C20 — the peer registry behaves as a consistent map and rejects unusable configs.
func init() {
	register(&Property{ID: "C20", Run: runC20, Post: postC20,
		Rule: "per run: 2-4 client tasks x 3-10 operations over 3 keys (AddPeer of valid configurations with unique AS numbers and of invalid ones from the grid {zero remote address, v4/v6 mismatch with the local address, local or remote AS 0 with and without a local address, hold time 1/2 s, port 0/-1/65536}, DeletePeer, GetPeer, ListPeers) with Serve and Close at drawn points, under an adversarial schedule; invoke/return are stamped with the global event sequence number and the history is checked with porcupine against a sequential map model; dial/admission behaviour of added and deleted peers is observed on the simulated network; non-trivial when at least two client operations overlapped in the history; distinct = distinct histories (operation, key, result sequence)"})
}

type c20in struct {
	Op    string // add, del, get, list
	Key   int
	Cfg   int // unique id of the configuration (RemoteAS), 0 for invalid adds
	Valid bool
}

type c20out struct {
	Err  string // "", exists, notexist, other
	Cfg  int
	List [3]int
}

type c20state [3]int

var c20model = porcupine.Model{
	Init: func() interface{} { return c20state{} },
	Step: func(state, input, output interface{}) (bool, interface{}) {
		st := state.(c20state)
		in := input.(c20in)
		out := output.(c20out)
		switch in.Op {
		case "add":
			if !in.Valid {
				return out.Err != "", st
			}
			if st[in.Key] != 0 {
				return out.Err == "exists", st
			}
			if out.Err != "" {
				return false, st
			}
			st[in.Key] = in.Cfg
			return true, st
		case "del":
			if st[in.Key] == 0 {
				return out.Err == "notexist", st
			}
			if out.Err != "" {
				return false, st
			}
			st[in.Key] = 0
			return true, st
		case "get":
			if st[in.Key] == 0 {
				return out.Err == "notexist", st
			}
			return out.Err == "" && out.Cfg == st[in.Key], st
		case "list":
			return out.List == [3]int(st), st
		}
		return false, st
	},
	Equal: func(a, b interface{}) bool { return a.(c20state) == b.(c20state) },
	DescribeOperation: func(input, output interface{}) string {
		return fmt.Sprintf("%+v -> %+v", input, output)
	},
}

type c20data struct {
	ops      []porcupine.Operation
	overlaps int
}

func errClass(err error) string {
	switch {
	case err == nil:
		return ""
	case errors.Is(err, corebgp.ErrPeerAlreadyExists):
		return "exists"
	case errors.Is(err, corebgp.ErrPeerNotExist):
		return "notexist"
	}
	return "other"
}

func runC20(w *World) {
	w.NoStall = true
	// NewServer accepts exactly IPv4 router ids (a pure sub-clause that rides along)
	for _, t := range []struct {
		ip string
		ok bool
	}{{"10.0.0.5", true}, {"fd00::5", false}, {"::ffff:10.0.0.5", false}, {"", false}, {"255.255.255.255", true}} {
		var a netip.Addr
		if t.ip != "" {
			a = netip.MustParseAddr(t.ip)
		}
		srv, err := corebgp.NewServer(a)
		if (err == nil) != t.ok || (t.ok && srv == nil) {
			w.Violate("C20/newserver/router-id", "NewServer(%q) returned err=%v, want success=%v", t.ip, err, t.ok)
			return
		}
	}
	e := w.NewEnv("10.0.0.5")
	if e == nil {
		return
	}
	keys := []string{"10.0.2.1", "10.0.2.2", "fd00:2::3"}
	if w.Chance(1, 3, "v4-mapped-key") {
		// an IPv4-mapped IPv6 remote address is a key of its own (and an IPv6 one)
		keys[1] = "::ffff:10.0.2.1"
		w.Probe("key:v4-mapped")
	}
	if w.Chance(1, 4, "zoned-key") {
		// a link-local address with a zone is a key like any other
		keys[2] = "fe80::2:3%eth0"
		w.Probe("key:zoned")
	}
	isV6 := func(k int) bool { return strings.Contains(keys[k], ":") }
	sites := make([]*Site, 3)
	for i, k := range keys {
		sites[i] = w.Net.NewSite(k, k)
		sites[i].DialPolicy = func(*DialRec) int { return 2 }
	}
	data := &c20data{}
	w.Sample["_c20"] = data
	nextCfg := 1000
	type added struct {
		key     int
		cfg     int
		passive bool
		port    int
		laddr   string
		addInv  uint64
		addRet  uint64
		addAt   time.Duration
		delRet  uint64
		deleted bool
		dials   []*DialRec
	}
	var adds []*added
	ctl := func(a *added) corebgp.PeerOption {
		return corebgp.WithDialerControl(func(network, address string, c syscall.RawConn) error {
			w.Net.mu.Lock()
			cur := w.Net.CurDial
			w.Net.mu.Unlock()
			a.dials = append(a.dials, cur)
			return nil
		})
	}
	serveInv, serveAt := uint64(0), time.Duration(0)
	_ = serveAt
	closeInv := uint64(0)
	_ = closeInv
	inflight := 0
	record := func(client int, in c20in, f func() c20out) {
		if inflight > 0 {
			data.overlaps++
		}
		inflight++
		call := int64(w.Ev("op invoke c%d %+v", client, in))
		out := f()
		ret := int64(w.Ev("op return c%d %+v", client, out))
		inflight--
		data.ops = append(data.ops, porcupine.Operation{ClientId: client, Input: in, Call: call, Output: out, Return: ret})
	}
	listOut := func() c20out {
		var o c20out
		for _, c := range e.Srv.ListPeers() {
			for i, k := range keys {
				if c.RemoteAddress.String() == k {
					if o.List[i] != 0 {
						o.List[i] = -1 // duplicate entry: matches no model state
					} else {
						o.List[i] = int(c.RemoteAS)
					}
				}
			}
		}
		return o
	}
	// Sequential prologue (recorded in the history like any other operation): a
	// peer that is added and deleted again before Serve must never operate.
	var ghost *added
	lifecycleEarly := w.Draw(4, "lifecycle")
	if lifecycleEarly != 0 && w.Chance(1, 2, "prologue") {
		nextCfg++
		ghost = &added{key: 0, cfg: nextCfg, port: 179}
		ip := netip.MustParseAddr(keys[0])
		record(98, c20in{"add", 0, ghost.cfg, true}, func() c20out {
			return c20out{Err: errClass(e.Srv.AddPeer(corebgp.PeerConfig{RemoteAddress: ip, LocalAS: 65001, RemoteAS: uint32(ghost.cfg)}, w.NewPlug("ghost"), ctl(ghost)))}
		})
		record(98, c20in{Op: "del", Key: 0}, func() c20out { return c20out{Err: errClass(e.Srv.DeletePeer(ip))} })
		w.Probe("prologue-add-delete-before-serve")
	}
	nclients := 2 + w.Draw(3, "nclients")
	if w.Tier == "thorough" {
		nclients = 2 + w.Draw(4, "nclients-thorough")
	}
	busy := nclients
	for cl := 0; cl < nclients; cl++ {
		cl := cl
		w.Go("client", func() {
			defer func() { busy-- }()
			for i, n := 0, w.Range(3, 10, "nops"); i < n && !w.Failed(); i++ {
				if w.Chance(1, 4, "opsleep") {
					w.Sleep(time.Duration(w.Range(1, 1500, "opms")) * time.Millisecond)
				} else {
					w.Yield("c20.between")
				}
				key := w.Draw(3, "key")
				ip := netip.MustParseAddr(keys[key])
				switch w.Draw(8, "op") {
				case 0, 1, 2: // valid add
					nextCfg++
					cfgID := nextCfg
					a := &added{key: key, cfg: cfgID, passive: w.Chance(1, 3, "passive"), port: Pick(w, "port", 179, 1179, 1, 65535, -1)}
					defaultPort := a.port == -1
					if defaultPort {
						a.port = corebgp.DefaultPort // no WithPort option: the documented default applies
					}
					cfg := corebgp.PeerConfig{RemoteAddress: ip, LocalAS: 65001, RemoteAS: uint32(cfgID)}
					var opts []corebgp.PeerOption
					if w.Chance(1, 4, "overridden-invalid") {
						// an invalid value that a later option overrides: the last one wins
						ov := Pick(w, "ovr", corebgp.WithHoldTime(1), corebgp.WithHoldTime(2), corebgp.WithPort(0), corebgp.WithPort(70000))
						if defaultPort {
							ov = corebgp.WithHoldTime(2) // (no later WithPort would override a bad port)
						}
						opts = append(opts, ov)
						w.Probe("valid-add-with-overridden-invalid-option")
					}
					if !defaultPort {
						opts = append(opts, corebgp.WithPort(a.port))
					}
					opts = append(opts, corebgp.WithHoldTime(Pick(w, "hold", uint16(90), 0, 3)), corebgp.WithIdleHoldTime(30*time.Second), ctl(a))
					if a.passive {
						opts = append(opts, corebgp.WithPassive())
					}
					// (an IPv4-mapped remote address passes AddPeer's family test with an IPv6 local
					// address, but no dialer can connect that pair: not judged, see DESIGN 11.6)
					if w.Chance(1, 2, "laddr") && !strings.HasPrefix(keys[key], "::ffff:") {
						a.laddr = "10.0.0.6"
						if isV6(key) {
							a.laddr = "fd00::6"
						}
						opts = append(opts, corebgp.WithLocalAddress(netip.MustParseAddr(a.laddr)))
					}
					pl := w.NewPlug(fmt.Sprintf("cfg%d", cfgID))
					record(cl, c20in{"add", key, cfgID, true}, func() c20out {
						a.addInv = w.Seq()
						err := e.Srv.AddPeer(cfg, pl, opts...)
						a.addRet, a.addAt = w.Seq(), w.Now()
						if err == nil {
							adds = append(adds, a)
						}
						return c20out{Err: errClass(err)}
					})
				case 3: // invalid add
					cfg := corebgp.PeerConfig{RemoteAddress: ip, LocalAS: 65001, RemoteAS: 64999}
					var opts []corebgp.PeerOption
					class := Pick(w, "invalid", "zero-remote-address", "family-mismatch", "local-as-0", "remote-as-0", "local-as-0-with-local-address", "remote-as-0-with-local-address", "hold-1", "hold-2", "port-0", "port-negative", "port-65536", "port-out-of-range")
					la := "10.0.0.6"
					if isV6(key) {
						la = "fd00::6"
					}
					switch class {
					case "zero-remote-address":
						cfg.RemoteAddress = netip.Addr{}
					case "family-mismatch":
						if isV6(key) {
							la = "10.0.0.6"
						} else {
							la = "fd00::6"
						}
						opts = append(opts, corebgp.WithLocalAddress(netip.MustParseAddr(la)))
					case "local-as-0":
						cfg.LocalAS = 0
					case "remote-as-0":
						cfg.RemoteAS = 0
					case "local-as-0-with-local-address":
						cfg.LocalAS = 0
						opts = append(opts, corebgp.WithLocalAddress(netip.MustParseAddr(la)))
					case "remote-as-0-with-local-address":
						cfg.RemoteAS = 0
						opts = append(opts, corebgp.WithLocalAddress(netip.MustParseAddr(la)))
					case "hold-1":
						opts = append(opts, corebgp.WithHoldTime(90), corebgp.WithHoldTime(1))
					case "hold-2":
						opts = append(opts, corebgp.WithHoldTime(2))
					case "port-0":
						opts = append(opts, corebgp.WithPort(179), corebgp.WithPort(0))
					case "port-negative":
						opts = append(opts, corebgp.WithPort(-1))
					case "port-65536":
						opts = append(opts, corebgp.WithPort(65536))
					case "port-out-of-range":
						opts = append(opts, corebgp.WithPort(Pick(w, "badport", 65537, 65536+179, 70000, -179, 1<<20+179, 1<<31-1, -65535)))
					}
					// an unusable configuration stays unusable whatever else is set
					for i, n := 0, w.Draw(3, "nextraopts"); i < n; i++ {
						extra := Pick(w, "extraopt", corebgp.WithPassive(), corebgp.WithIdleHoldTime(time.Second), corebgp.WithConnectRetryTime(time.Second), corebgp.WithPassive())
						if w.Draw(2, "extrapos") == 0 {
							opts = append([]corebgp.PeerOption{extra}, opts...)
						} else {
							opts = append(opts, extra)
						}
					}
					w.Probe("invalid:" + class)
					pl := w.NewPlug("invalid")
					var got error
					record(cl, c20in{"add", key, 0, false}, func() c20out {
						got = e.Srv.AddPeer(cfg, pl, opts...)
						return c20out{Err: errClass(got)}
					})
					if got == nil {
						w.Violate("C20/validation/accepted-"+class, "AddPeer accepted a configuration that cannot yield a valid session (%s): %+v", class, cfg)
						return
					}
				case 4, 5:
					record(cl, c20in{Op: "del", Key: key}, func() c20out {
						err := e.Srv.DeletePeer(ip)
						if err == nil {
							// the latest successful add of this key is the one deleted
							for j := len(adds) - 1; j >= 0; j-- {
								if adds[j].key == key && !adds[j].deleted {
									adds[j].deleted, adds[j].delRet = true, w.Seq()
									break
								}
							}
						}
						return c20out{Err: errClass(err)}
					})
				case 6:
					record(cl, c20in{Op: "get", Key: key}, func() c20out {
						c, err := e.Srv.GetPeer(ip)
						o := c20out{Err: errClass(err), Cfg: int(c.RemoteAS)}
						if err == nil && (c.RemoteAddress != ip || c.LocalAS != 65001) {
							o.Cfg = -1
						}
						return o
					})
				default:
					record(cl, c20in{Op: "list"}, listOut)
				}
			}
		})
	}
	// server lifecycle
	lifecycle := lifecycleEarly // 0 never served, 1 serve early, 2 serve late, 3 serve and close mid-way
	w.Go("lifecycle", func() {
		if lifecycle == 0 {
			return
		}
		if lifecycle == 2 {
			w.Sleep(time.Duration(w.Range(1, 3000, "servems")) * time.Millisecond)
		} else {
			for i, n := 0, w.Draw(30, "serveyield"); i < n; i++ {
				w.Yield("c20.pre-serve")
			}
		}
		serveInv, serveAt = w.Seq(), w.Now()
		e.Serve("10.0.0.5:179", "[fd00::5]:179")
		if lifecycle == 3 {
			if w.Chance(1, 2, "close-in-burst") {
				// in the thick of the clients' operations, not at a timer wake-up
				for i, n := 0, w.Draw(80, "closeyield"); i < n; i++ {
					w.Yield("c20.pre-close")
				}
				w.Probe("close-in-burst")
			} else {
				w.Sleep(time.Duration(w.Range(1, 3000, "closems")) * time.Millisecond)
			}
			closeInv = w.Seq()
			c := e.Close()
			w.WaitUntil("c20.close", 10*time.Second, c.Done)
		}
	})
	if !w.WaitUntil("c20.clients", 2*time.Minute, func() bool { return busy == 0 }) {
		w.Violate("C20/operation-never-returned", "%d client task(s) are still inside a registry operation after 2 minutes of virtual time; alive: %s", busy, w.aliveSummary())
		return
	}
	w.Sleep(5 * time.Second)
	w.Quiesce()
	if w.Failed() {
		return
	}
	if lifecycle == 3 && e.CloseC != nil && !w.WaitUntil("c20.close.late", 30*time.Second, e.CloseC.Done) {
		w.Violate("C20/close-never-returned", "Close, issued while registry operations were in progress, has not returned after %v; alive: %s", w.Now(), w.aliveSummary())
		return
	}
	w.NonTrivial = data.overlaps >= 1
	hist := ""
	sorted := append([]porcupine.Operation(nil), data.ops...)
	sort.Slice(sorted, func(i, j int) bool { return sorted[i].Call < sorted[j].Call })
	for _, o := range sorted {
		in, out := o.Input.(c20in), o.Output.(c20out)
		hist += fmt.Sprintf("%s%d:%s;", in.Op[:1], in.Key, out.Err)
	}
	w.Rel(hist + fmt.Sprint(lifecycle))
	w.Sample["history"] = hist
	w.Sample["lifecycle"] = []string{"never-served", "serve-early", "serve-late", "serve-then-close"}[lifecycle]
	w.Sample["overlapping_operations"] = data.overlaps
	// final state must match what the history says is present
	fin := listOut()
	data.ops = append(data.ops, porcupine.Operation{ClientId: 99, Input: c20in{Op: "list"}, Call: int64(w.Seq()) + 1, Output: fin, Return: int64(w.Seq()) + 2})
	// ---- behaviour of the peers added during the concurrent phase (dials are
	// attributed precisely through each peer's own WithDialerControl closure) ----
	for _, a := range adds {
		wantAddr := net.JoinHostPort(keys[a.key], fmt.Sprint(a.port))
		for _, d := range a.dials {
			if a.passive {
				w.Violate("C20/behaviour/passive-peer-dials", "passive peer %s made an outbound attempt", keys[a.key])
				return
			}
			if d.Addr != wantAddr {
				w.Violate("C20/behaviour/dial-target", "peer %s configured with port %d was dialled at %s", keys[a.key], a.port, d.Addr)
				return
			}
			if a.laddr != "" && Addr(d.LocalAddr).Host() != a.laddr {
				w.Violate("C20/behaviour/dial-source", "peer %s configured with local address %s was dialled from %s", keys[a.key], a.laddr, d.LocalAddr)
				return
			}
			if serveInv == 0 || d.Seq < serveInv {
				w.Violate("C20/behaviour/dial-before-serve", "peer %s was dialled before Serve was called", keys[a.key])
				return
			}
			if lifecycle == 3 && e.CloseC != nil && e.CloseC.Returned && d.Seq > e.CloseC.RetSeq {
				w.Violate("C20/behaviour/dial-after-close", "peer %s was dialled after Close returned", keys[a.key])
				return
			}
			w.Probe("dial-attributed")
		}
	}
	// ---- sequential behaviour phase: start on add, stop on delete ----
	serving := lifecycle == 1 || lifecycle == 2
	if serving {
		for k := range keys {
			ip := netip.MustParseAddr(keys[k])
			_ = e.Srv.DeletePeer(ip)
			w.Sleep(100 * time.Millisecond)
			nextCfg++
			a := &added{key: k, cfg: nextCfg, passive: w.Chance(1, 3, "bpassive"), port: Pick(w, "bport", 179, 1179)}
			opts := []corebgp.PeerOption{corebgp.WithPort(a.port), corebgp.WithIdleHoldTime(2 * time.Second), ctl(a)}
			if a.passive {
				opts = append(opts, corebgp.WithPassive())
			}
			if w.Chance(1, 2, "bladdr") && !strings.HasPrefix(keys[k], "::ffff:") {
				a.laddr = "10.0.0.6"
				if isV6(k) {
					a.laddr = "fd00::6"
				}
				opts = append(opts, corebgp.WithLocalAddress(netip.MustParseAddr(a.laddr)))
			}
			t0 := w.Now()
			if err := e.Srv.AddPeer(corebgp.PeerConfig{RemoteAddress: ip, LocalAS: 65001, RemoteAS: uint32(nextCfg)}, w.NewPlug("beh"), opts...); err != nil {
				w.Violate("C20/behaviour/valid-add-refused", "AddPeer of a valid configuration for absent key %s failed: %v", keys[k], err)
				return
			}
			if !a.passive {
				if !w.WaitUntil("c20.started", time.Second, func() bool { return len(a.dials) > 0 }) {
					w.Violate("C20/behaviour/added-peer-not-started", "active peer %s added at %v while serving was not dialled within 1 s", keys[k], t0)
					return
				}
				d := a.dials[0]
				if d.Addr != net.JoinHostPort(keys[k], fmt.Sprint(a.port)) || (a.laddr != "" && Addr(d.LocalAddr).Host() != a.laddr) {
					w.Violate("C20/behaviour/dial-target", "peer %s (port %d, local address %q) was dialled at %s from %s", keys[k], a.port, a.laddr, d.Addr, d.LocalAddr)
					return
				}
				w.Probe("dial-observed-for-added-peer")
			} else if strings.HasPrefix(keys[k], "::ffff:") {
				// Not judged: Go renders the source of a connection from an IPv4-mapped
				// address as plain IPv4 ("10.0.2.1:port"), so an inbound connection can
				// never be matched to a peer keyed "::ffff:10.0.2.1". Whether AddPeer
				// should refuse or unmap such an address is a design question the
				// statement does not settle (DESIGN 11.2); the registry clauses and the
				// outbound behaviour are judged for this key like for any other.
				w.Probe("inbound-not-judged-for-v4-mapped-key")
			} else {
				dst, lis := "10.0.0.5", e.Lis[0]
				if isV6(k) {
					dst, lis = "fd00::5", e.Lis[1]
				}
				if a.laddr != "" {
					dst = a.laddr
				}
				c := w.Net.DialIn(lis, sites[k], keys[k], dst)
				if ExpectOpen(c, time.Second) == nil {
					w.Violate("C20/behaviour/added-peer-not-started", "passive peer %s added while serving did not serve an inbound connection", keys[k])
					return
				}
				w.Probe("inbound-admitted-for-added-peer")
			}
			w.Sleep(time.Duration(w.Range(0, 3000, "bupms")) * time.Millisecond)
			if err := e.Srv.DeletePeer(ip); err != nil {
				w.Violate("C20/behaviour/delete-failed", "DeletePeer of present key %s failed: %v", keys[k], err)
				return
			}
			nd := len(a.dials)
			w.Sleep(10 * time.Second)
			if len(a.dials) != nd {
				w.Violate("C20/behaviour/dial-after-delete", "peer %s was dialled after DeletePeer returned", keys[k])
				return
			}
			if _, err := e.Srv.GetPeer(ip); !errors.Is(err, corebgp.ErrPeerNotExist) {
				w.Violate("C20/behaviour/delete-failed", "GetPeer after DeletePeer returned %v", err)
				return
			}
		}
	}
	if ghost != nil && len(ghost.dials) > 0 {
		w.Violate("C20/behaviour/deleted-before-serve-peer-dials", "a peer that was added and deleted again before Serve made %d outbound attempt(s)", len(ghost.dials))
		return
	}
	if lifecycle != 0 {
		if lifecycle != 3 {
			e.FinishRun()
		}
		w.Quiesce()
		if lt := w.LibTasksAlive(); len(lt) > 0 && e.CloseC != nil && e.CloseC.Returned {
			w.Violate("C20/behaviour/peer-running-after-close", "%d corebgp goroutine(s) still alive after Close returned (a peer added around Close was started but never stopped?), e.g. %s at %s", len(lt), lt[0].ID, lt[0].Site)
			return
		}
		s2 := w.CallAsync("ServeAgain", func() error { return e.Srv.Serve(nil) })
		w.WaitUntil("c20.serveagain", 5*time.Second, s2.Done)
		if !s2.Returned || !errors.Is(s2.Err, corebgp.ErrServerClosed) {
			w.Violate("C20/serve-after-close", "Serve after Close returned %v (returned=%v), want ErrServerClosed", s2.Err, s2.Returned)
		}
	}
}

// postC20 runs porcupine outside the bubble (real clock).
func postC20(w *World) {
	data, _ := w.Sample["_c20"].(*c20data)
	delete(w.Sample, "_c20")
	if data == nil || len(data.ops) == 0 {
		return
	}
	res := porcupine.CheckOperationsTimeout(c20model, data.ops, 10*time.Second)
	switch res {
	case porcupine.Illegal:
		desc := ""
		sort.Slice(data.ops, func(i, j int) bool { return data.ops[i].Call < data.ops[j].Call })
		for _, o := range data.ops {
			desc += fmt.Sprintf("\n  c%d [%d,%d] %+v -> %+v", o.ClientId, o.Call, o.Return, o.Input, o.Output)
		}
		w.Viol = &Violation{Sig: "C20/linearizability/illegal-history", Detail: "the recorded registry history is not linearizable against a sequential map:" + desc}
	case porcupine.Unknown:
		w.Probes["porcupine-unknown"]++
	default:
		w.Probes["porcupine-ok"]++
	}
}
