package sim

import (
	"fmt"
	"time"

	"github.com/jwhited/corebgp"
)

// C06 — hold time negotiation, hold-timer expiry, keepalive cadence.
func init() {
	register(&Property{ID: "C06", Run: runC06,
		Rule: "per run: (local, remote) hold times from {0,3,4,9,10,30,90,180,65535,random 3..65535}, a stage (silence in OpenConfirm / Established), a remote traffic pattern (silent, KEEPALIVE-only or UPDATE-only or mixed at cadence H/3, H-eps, H+eps, random, or a last message just before expiry) and a local WriteUpdate pattern (none, periodic, bursts), all in virtual time with zero-time CPU; non-trivial when the OPEN exchange completed; distinct = distinct (hold pair, stage, pattern, number of remote messages, expiry observed?)"})
}

func runC06(w *World) {
	w.NoStall = true
	w.Horizon = 1000 * 24 * time.Hour
	holds := []int{0, 3, 4, 9, 10, 30, 90, 180, 65535, -1, 9, 3}
	lh := holds[w.Draw(len(holds), "lhold")]
	if lh < 0 {
		lh = w.Range(3, 65535, "lholdr")
	}
	rh := holds[w.Draw(len(holds), "rhold")]
	if rh < 0 {
		rh = w.Range(3, 65535, "rholdr")
	}
	hs := min(lh, rh)
	H := time.Duration(hs) * time.Second
	dir := Dir(w.Draw(2, "dir"))
	stage := w.Draw(4, "stage") // 0: stay in OpenConfirm; else Established
	var writer corebgp.UpdateMessageWriter
	// busyFor > 0 makes the next UPDATE's handler take that long (virtual time):
	// the hold timer then fires while the FSM is not looking; busyCease makes it
	// end the session with a Cease afterwards (no damping)
	var busyFor time.Duration
	busyCease := false
	var busyFrom, busyTo []time.Duration // intervals during which a plugin callback kept the FSM goroutine
	s := NewStd1(w, Std1Opts{Dir: dir, Passive: dir == DirIn && w.Draw(2, "passive") == 1, LocalHold: lh, RemoteHold: uint16(rh), IdleHold: 6 * time.Hour,
		Configure: func(p *PeerH) {
			p.Plug.EstFn = func(pl *Plug, ss *Session) { writer = ss.Writer }
			// a plugin may return a nil handler: received UPDATEs still count as traffic
			p.Plug.NilHandler = w.Chance(1, 4, "nilhandler")
			p.Plug.UpdFn = func(pl *Plug, ss *Session, idx int, b []byte) *corebgp.Notification {
				if busyFor > 0 {
					d := busyFor
					busyFor = 0
					w.Fault("busy-handler")
					busyFrom = append(busyFrom, w.Now())
					w.Sleep(d)
					busyTo = append(busyTo, w.Now())
					if busyCease {
						busyCease = false
						return &corebgp.Notification{Code: 6, Subcode: 0}
					}
				}
				return nil
			}
		}})
	if s == nil {
		return
	}
	p := s.P
	// Optionally a previous session with another remote hold time, ended by a
	// plain TCP close: the hold time in force is per session (the outbound FSM
	// object is reused across sessions).
	prior := -1
	if w.Chance(2, 5, "prior") {
		prior = holds[w.Draw(len(holds), "priorhold")]
		if prior < 0 {
			prior = w.Range(3, 65535, "priorholdr")
		}
		pc := s.E.OpenConn(p, dir, time.Minute)
		if pc == nil {
			w.HarnessError("C06: no connection for the prior session")
			return
		}
		p.Speaker.Hold = uint16(prior)
		_, err := s.E.Advance(p, pc, StEstablished, time.Minute)
		p.Speaker.Hold = uint16(rh)
		if err != nil {
			w.Probe("prior-session-failed")
			s.E.FinishRun()
			return
		}
		if w.Chance(1, 2, "priorwrite") && writer != nil {
			writer.WriteUpdate([]byte{9, 9, 9, 9})
		}
		ph := min(lh, prior)
		if ph > 0 && ph <= 30 && !p.Plug.NilHandler && w.Chance(1, 2, "prior-busy") {
			// the prior session's handler is busy for longer than its hold time and
			// then ends the session itself: its hold timer fired unobserved
			busyFor = time.Duration(ph)*time.Second + time.Duration(w.Range(200, 3000, "priorbusyms"))*time.Millisecond
			busyCease = true
			pc.Deliver(MkFrame(MsgUpdate, []byte{8, 8, 8, 8}))
			w.WaitUntil("c06.priorbusy", time.Duration(ph)*time.Second+10*time.Second, pc.LocalClosed)
			w.Probe("prior-session-ended-by-busy-handler")
		}
		pc.FIN()
		w.Quiesce()
		w.Probe("prior-session")
	}
	nest0 := p.Plug.NEst
	c := s.E.OpenConn(p, dir, 7*time.Hour)
	if c == nil {
		w.HarnessError("C06: no connection")
		return
	}
	o := ExpectOpen(c, time.Minute)
	if o == nil {
		w.Probe("setup-failed")
		s.E.FinishRun()
		return
	}
	if int(o.Hold) != lh {
		w.Violate("C06/open-holdtime", "OPEN carries hold time %d, configured %d s", o.Hold, lh)
		return
	}
	// recv: completion times of messages delivered to corebgp
	var recv []time.Duration
	deliver := func(b []byte) {
		c.SendSeg(b)
		recv = append(recv, w.Now())
	}
	deliver(p.Speaker.OpenFrame())
	f := c.WaitFrame(time.Minute)
	if f != nil && f.IsNotif(4, -1) && f.At-c.OpenSentAt < 3*time.Second {
		w.Violate("C06/expiry/early-OpenSent", "Hold Timer Expired sent %v after corebgp's own OPEN, before any hold time could have elapsed (local %d s, remote %d s, prior session remote hold %d)", f.At-c.OpenSentAt, lh, rh, prior)
		return
	}
	if f == nil || f.Type != MsgKeepalive {
		w.Probe("setup-failed")
		s.E.FinishRun()
		return
	}
	w.NonTrivial = true
	w.Quiesce()
	pattern := "silent"
	nremote := 0
	expectExpiry := hs > 0
	expiryFrom := recv[len(recv)-1]
	established := false
	if stage != 0 {
		if hs > 0 && hs <= 180 && w.Chance(1, 3, "late-handshake-keepalive") {
			// the remote takes its time before its first KEEPALIVE: the hold time
			// then counts from that KEEPALIVE, not from the OPEN
			w.Sleep(time.Duration(w.Range(hs*300, hs*900, "latekams")) * time.Millisecond)
			w.Probe("handshake-keepalive-delayed")
			if c.LocalClosed() {
				w.Violate("C06/expiry/early-OpenConfirm", "the session was torn down %v after the remote's OPEN while waiting for its KEEPALIVE (hold time %v)", w.Now()-recv[len(recv)-1], H)
				return
			}
		}
		deliver(KeepaliveFrame())
		if !w.WaitUntil("c06.est", time.Minute, func() bool { return p.Plug.NEst == nest0+1 }) {
			w.Violate("C06/not-established", "hold times (%d,%d): no OnEstablished after a complete OPEN/KEEPALIVE exchange", lh, rh)
			return
		}
		established = true
		expiryFrom = recv[len(recv)-1]
		w.Quiesce()
		// local WriteUpdate pattern
		wp := w.Draw(4, "wpattern")
		if wp > 0 && hs == 0 {
			// zero hold time: local writes must not start any periodic KEEPALIVEs
			for i, n := 0, w.Range(1, 3, "zwrites"); i < n; i++ {
				call := w.CallAsync("WriteUpdate", func() error { return writer.WriteUpdate([]byte{0, 0, 0, byte(i)}) })
				if !w.WaitUntil("c06.zwrite", 5*time.Second, call.Done) {
					w.Violate("C06/zero-holdtime/writeupdate-blocked", "negotiated hold time 0: WriteUpdate did not return within 5 s")
					return
				}
				w.Sleep(time.Duration(w.Range(0, 2000, "zwms")) * time.Millisecond)
			}
			w.Probe("zero-hold-local-writes")
		}
		if wp > 0 && hs > 0 {
			per := H / time.Duration(Pick(w, "wper", 6, 3, 2, 1))
			w.Go("local-writer", func() {
				for i := 0; i < 16; i++ {
					n := 1
					if wp == 3 {
						n = w.Range(1, 4, "burst")
					}
					for k := 0; k < n; k++ {
						if writer.WriteUpdate([]byte{0, 0, 0, byte(i)}) != nil {
							return
						}
					}
					w.Sleep(per + time.Duration(w.Range(0, 50, "wjit"))*time.Millisecond)
				}
			})
		}
		if hs > 0 {
			// remote traffic plan
			pk := w.Draw(8, "pattern")
			if pk == 7 && (hs > 30 || p.Plug.NilHandler) {
				pk = 1
			}
			pattern = []string{"silent", "ka@H/3", "ka@H-eps", "ka@H+eps", "random", "updates@H/3", "last-just-before-expiry", "busy-handler"}[pk]
			if pk == 7 {
				// an UPDATE whose handler takes longer than the hold time while the
				// remote keeps sending KEEPALIVEs on time: the remote is never silent,
				// so the session must survive the handler
				busyFor = H + time.Duration(w.Range(200, 2*hs*1000, "busyms"))*time.Millisecond
				end := w.Now() + busyFor + H
				deliver(MkFrame(MsgUpdate, []byte{7, 7, 7, 7}))
				for w.Now() < end && !c.LocalClosed() {
					w.Sleep(H / 3)
					deliver(KeepaliveFrame())
					nremote++
				}
				pk = 0
			}
			n := w.Range(1, 8, "nmsgs")
			eps := Pick(w, "eps", 5*time.Millisecond, 100*time.Millisecond, time.Second)
			for i := 0; i < n && pk != 0; i++ {
				var gap time.Duration
				switch pk {
				case 1, 5:
					gap = H / 3
				case 2:
					gap = H - eps
				case 3:
					gap = H + eps
				case 4:
					gap = time.Duration(w.Range(1, hs*1400, "gapms")) * time.Millisecond
					if d := gap - H; d > -3*time.Millisecond && d < 3*time.Millisecond {
						gap = H - 5*time.Millisecond
					}
				case 6:
					gap = H - Pick(w, "jb", 3*time.Millisecond, 10*time.Millisecond, 500*time.Millisecond)
				}
				if gap >= H {
					// the session must expire before this message: stop the plan here
					break
				}
				w.Sleep(gap - (w.Now() - recv[len(recv)-1]))
				if c.LocalClosed() {
					break
				}
				if pk == 5 || (pk == 4 && w.Draw(2, "kind") == 1) {
					deliver(MkFrame(MsgUpdate, []byte{0, 0, 0, byte(i)}))
				} else {
					deliver(KeepaliveFrame())
				}
				nremote++
			}
			expiryFrom = recv[len(recv)-1]
		}
	}
	// ---- silence ----
	if expectExpiry {
		deadline := expiryFrom + H + time.Second
		w.WaitUntil("c06.expiry", deadline-w.Now()+time.Second, c.LocalClosed)
	} else {
		w.Sleep(24*time.Hour + time.Duration(w.Range(0, 3600, "extra"))*time.Second)
	}
	w.Quiesce()
	fs := c.AllFrames()
	w.Rel(fmt.Sprintf("%d,%d|%d|%s|%d|%v|%s|%d", lh, rh, stage, pattern, nremote, c.LocalClosed(), dir, prior))
	w.Sample["hold_local_remote"] = fmt.Sprintf("%d/%d -> %d", lh, rh, hs)
	w.Sample["stage"] = map[bool]string{true: "Established", false: "OpenConfirm"}[established]
	w.Sample["prior_session_remote_hold"] = prior
	w.Sample["remote_pattern"] = pattern
	w.Sample["remote_messages_after_handshake"] = nremote
	w.Sample["frames_from_corebgp"] = len(fs)
	w.Probe(fmt.Sprintf("H=%s", holdClass(hs)))
	w.Probe("pattern:" + pattern)
	stName := "OpenConfirm"
	if established {
		stName = "Established"
	}
	if hs == 0 {
		// (e) zero hold time: nothing periodic, nothing expires
		if c.LocalClosed() || p.Plug.NClose != p.Plug.NEst-1 && established || c.LocalClosed() {
			w.Violate("C06/zero-holdtime/expired-"+stName, "negotiated hold time 0 (local %d, remote %d) but the session was torn down after silence; frames %s", lh, rh, descFrames(fs))
			return
		}
		for i, f := range fs[2:] {
			if f.Type == MsgKeepalive || f.Type == MsgNotification {
				w.Violate("C06/zero-holdtime/periodic-"+stName, "negotiated hold time 0 but corebgp sent %s (frame %d) at %v", f.String(), i+2, f.At)
				return
			}
		}
		if !established {
			deliver(KeepaliveFrame())
			if !w.WaitUntil("c06.est0", time.Minute, func() bool { return p.Plug.NEst == nest0+1 }) {
				w.Violate("C06/zero-holdtime/not-established", "hold time 0: no OnEstablished after 24 h in OpenConfirm and the remote's KEEPALIVE")
				return
			}
			w.Quiesce()
		}
		// KEEPALIVEs are still legal with a zero hold time and must not disturb anything
		for i, n := 0, w.Draw(3, "zka"); i < n; i++ {
			deliver(KeepaliveFrame())
			w.Quiesce()
		}
		nupd := p.Plug.NUpd
		deliver(MkFrame(MsgUpdate, []byte{0, 0, 0, 0}))
		w.Quiesce()
		if p.Plug.NUpd != nupd+1 && !p.Plug.NilHandler {
			w.Violate("C06/zero-holdtime/updates-stop", "hold time 0: an UPDATE sent after 24 h of silence did not reach the handler")
			return
		}
		nf := c.NFrames()
		wcall := w.CallAsync("WriteUpdate", func() error { return writer.WriteUpdate([]byte{1, 1, 1, 1}) })
		if !w.WaitUntil("c06.zwrite2", 5*time.Second, wcall.Done) {
			w.Violate("C06/zero-holdtime/writeupdate-blocked", "negotiated hold time 0: WriteUpdate after 24 h of silence did not return within 5 s")
			return
		}
		if wcall.Err != nil || c.NFrames() != nf+1 {
			w.Violate("C06/zero-holdtime/updates-stop", "hold time 0: WriteUpdate after 24 h of silence failed (%v)", wcall.Err)
			return
		}
		w.Sleep(time.Hour)
		for _, f := range NewFrames(c, nf+1) {
			if f.Type == MsgKeepalive || f.Type == MsgNotification {
				w.Violate("C06/zero-holdtime/periodic-after-write", "negotiated hold time 0 but corebgp sent %s at %v after a local WriteUpdate", f.String(), f.At)
				return
			}
		}
		s.E.FinishRun()
		return
	}
	// (b) never early, (c) expiry on time
	var notif *Frame
	for i := range fs {
		if fs[i].Type == MsgNotification {
			notif = &fs[i]
			break
		}
	}
	if notif == nil || !notif.IsNotif(4, -1) || !c.LocalClosed() {
		got := "no NOTIFICATION"
		if notif != nil {
			got = notif.String()
		}
		w.Violate("C06/expiry/missing-"+stName, "hold time %v (local %d, remote %d), remote silent since %v: want NOTIFICATION(4,0) and close by %v; got %s, closed=%v at %v", H, lh, rh, expiryFrom, expiryFrom+H+time.Second, got, c.LocalClosed(), w.Now())
		return
	}
	T := notif.At
	L := time.Duration(-1)
	for _, r := range recv {
		if r <= T {
			L = r
		}
	}
	if T-L < H {
		w.Violate("C06/expiry/early-"+stName, "Hold Timer Expired sent at %v, only %v after the last message received at %v; hold time in force is %v (local %d, remote %d)", T, T-L, L, H, lh, rh)
		return
	}
	if T > expiryFrom+H+time.Second {
		w.Violate("C06/expiry/late-"+stName, "Hold Timer Expired sent at %v, %v after the last message (hold time %v)", T, T-expiryFrom, H)
		return
	}
	if notif.Body[1] != 0 {
		w.Violate("C06/expiry/subcode", "Hold Timer Expired with subcode %d", notif.Body[1])
		return
	}
	// (d) keepalive cadence: from corebgp's first KEEPALIVE to the end of the session
	var prev time.Duration = -1
	limit := H/3 + time.Second
	for _, f := range fs {
		if f.Type != MsgKeepalive && f.Type != MsgUpdate {
			continue
		}
		inCallback := false
		for i := range busyTo {
			if prev <= busyTo[i] && f.At >= busyFrom[i] {
				inCallback = true // corebgp cannot send while the plugin holds its FSM goroutine
			}
		}
		if prev >= 0 && f.At-prev > limit && !inCallback {
			w.Violate("C06/keepalive-cadence/gap-"+stName, "%v passed between two KEEPALIVE/UPDATE messages sent by corebgp (at %v and %v); hold time %v allows %v", f.At-prev, prev, f.At, H, limit)
			return
		}
		prev = f.At
	}
	if prev >= 0 && T-prev > limit {
		w.Violate("C06/keepalive-cadence/gap-"+stName, "%v passed without a KEEPALIVE/UPDATE before the session ended at %v (last at %v); hold time %v allows %v", T-prev, T, prev, H, limit)
		return
	}
	s.E.FinishRun()
}

func holdClass(h int) string {
	switch h {
	case 0, 3, 4, 9, 10, 30, 90, 180, 65535:
		return fmt.Sprint(h)
	}
	return "other"
}
