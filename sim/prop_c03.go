package sim

import (
	"bytes"
	"encoding/binary"
	"fmt"
	"time"

	"github.com/jwhited/corebgp"
)

// C03 — inbound UPDATEs reach the handler exactly once, in order, byte-exact.
func init() {
	register(&Property{ID: "C03", Run: runC03,
		Rule: "per run: an Established session (either direction, hold 0 or 90 s), 1-60 messages (UPDATE bodies of length {0,1,4,23,4076,4077,random} with unique tags when they fit, interleaved KEEPALIVEs) concatenated and cut into tape-chosen TCP segments (1-byte runs, cuts inside header/body, coalesced messages), handler variant (plain / returns a NOTIFICATION at the k-th UPDATE / calls WriteUpdate / stalls in virtual time) under an adversarial goroutine schedule; non-trivial when at least one UPDATE was sent on an Established session; distinct = distinct (message length sequence, segmentation, handler variant, delivered count)"})
}

func runC03(w *World) {
	dir := Dir(w.Draw(2, "dir"))
	hold := Pick(w, "hold", 90, 0)
	variant := w.Draw(5, "variant") // 0,1 plain; 2 notification at k; 3 WriteUpdate inside handler; 4 stall inside handler
	// the remote may close (FIN) right behind its last message: everything it sent
	// before closing was sent while the session was Established and must still be
	// delivered, in order, before the session ends
	finBehind := variant != 2 && w.Chance(1, 4, "fin-behind")
	// ... or send a Cease NOTIFICATION right behind its last UPDATE: same demand
	notifBehind := variant != 2 && !finBehind && w.Chance(1, 6, "notif-behind")
	// the remote may pipeline its handshake KEEPALIVE and the UPDATEs in one
	// stream: the first UPDATE must wait for OnEstablished to return
	pipelineEst := w.Chance(1, 4, "pipeline-establish")
	nmsg := w.Range(1, 12, "nmsg")
	if w.Chance(1, 6, "many") {
		nmsg = w.Range(13, 60, "nmsgmany")
		if w.Tier == "thorough" {
			nmsg = w.Range(13, 200, "nmsgmore")
		}
	}
	notifAt := -1
	var wantNotif *corebgp.Notification
	if variant == 2 {
		notifAt = w.Draw(nmsg, "notifat")
		wantNotif = &corebgp.Notification{Code: 3, Subcode: byte(w.Draw(12, "nsub")), Data: w.RandBytes(w.NotifDataLen(20, "ndl"), "nd")}
	}
	w.NoStall = variant != 4
	s := NewStd1(w, Std1Opts{Dir: dir, Passive: dir == DirIn && w.Draw(2, "passive") == 1, LocalHold: hold, RemoteHold: 90, Vary: true,
		Configure: func(p *PeerH) {
			p.Plug.Oracle = true
			p.Plug.UpdFn = func(pl *Plug, ss *Session, idx int, b []byte) *corebgp.Notification {
				switch variant {
				case 2:
					if idx == notifAt {
						return wantNotif
					}
				case 3:
					if err := ss.Writer.WriteUpdate([]byte{0xEE, byte(idx)}); err != nil {
						w.Probe("handler-writeupdate-error")
					}
				case 4:
					if w.Chance(1, 3, "stall") {
						w.Fault("handler-stall")
						w.Sleep(time.Duration(w.Range(1, 1500, "stallms")) * time.Millisecond)
					}
				}
				return nil
			}
		}})
	if s == nil {
		return
	}
	p := s.P
	prior := false
	if variant != 2 {
		prior = s.PriorSession(w)
	}
	c := s.E.OpenConn(p, dir, time.Minute)
	if c == nil {
		w.HarnessError("C03: no connection")
		return
	}
	target := StEstablished
	if pipelineEst {
		target = StOpenConfirm
	}
	if _, err := s.E.Advance(p, c, target, time.Minute); err != nil {
		w.Probe("setup-failed")
		s.E.FinishRun()
		return
	}
	// build the message sequence
	var sent [][]byte
	var stream []byte
	var lens []int
	for i := 0; i < nmsg; i++ {
		if w.Chance(1, 4, "ka") {
			stream = append(stream, KeepaliveFrame()...)
			lens = append(lens, -1)
			continue
		}
		l := Pick(w, "ulen", -1, 0, 1, 4, 23, 4076, 4077, -1, -1, 8)
		if l < 0 {
			l = w.Range(0, 200, "ulenr")
		}
		b := w.RandBytes(l, "ubody")
		if l >= 8 {
			binary.BigEndian.PutUint64(b, 0xC03C03<<40|uint64(i))
		}
		sent = append(sent, b)
		lens = append(lens, l)
		stream = append(stream, MkFrame(MsgUpdate, b)...)
	}
	if len(sent) == 0 {
		sent = append(sent, []byte{1, 2, 3, 4})
		lens = append(lens, 4)
		stream = append(stream, MkFrame(MsgUpdate, sent[0])...)
	}
	if pipelineEst {
		stream = append(KeepaliveFrame(), stream...)
		lens = append([]int{-1}, lens...)
		w.Probe("handshake-keepalive-pipelined-with-updates")
	}
	if notifBehind {
		stream = append(stream, MkNotif(6, 2, nil)...)
		w.Probe("cease-right-behind-last-message")
	}
	w.NonTrivial = true
	before := c.NFrames()
	// deliver: either message by message (each with its own segmentation) or as one stream
	if w.Draw(2, "delivery") == 0 {
		c.SendSeg(stream)
	} else {
		off := 0
		for off < len(stream) {
			l := int(binary.BigEndian.Uint16(stream[off+16:]))
			c.SendSeg(stream[off : off+l])
			off += l
			w.Yield("c03.between")
		}
	}
	if finBehind {
		c.FIN()
		w.Probe("fin-right-behind-last-message")
	}
	w.Quiesce()
	if variant == 4 {
		// stalls move the clock; wait for the handler to drain
		// (a task sleeping inside the handler is not runnable, so Quiesce alone
		// would return while the FSM is still busy)
		w.WaitUntil("c03.drain", 5*time.Minute, func() bool {
			n := p.Plug.NUpd
			if prior {
				n--
			}
			return (n >= len(sent) && p.Plug.st == plUp) || p.Plug.st == plDown
		})
		w.Quiesce()
	}
	var got [][]byte
	for _, cb := range p.Plug.CBs {
		if cb.Kind == "upd" {
			got = append(got, cb.Update)
		}
	}
	if prior && len(got) > 0 {
		got = got[1:] // the prior session's single UPDATE
	}
	w.Rel(fmt.Sprintf("%v|v%d|%d|%d|%s", lens, variant, notifAt, len(got), dir))
	w.Sample["messages"] = fmt.Sprint(lens)
	w.Sample["handler_variant"] = []string{"plain", "plain", "notification-at-k", "writeupdate-inside", "stall-inside"}[variant]
	w.Sample["delivered"] = len(got)
	want := sent
	if variant == 2 {
		if notifAt < len(sent) {
			want = sent[:notifAt+1]
		}
	}
	if len(got) > len(want) {
		w.Violate("C03/delivery/extra", "%d UPDATEs delivered, at most %d expected (sent %d, handler variant %d, notification at %d)", len(got), len(want), len(sent), variant, notifAt)
		return
	}
	for i := range got {
		if !bytes.Equal(got[i], want[i]) {
			w.Violate("C03/delivery/content-or-order", "UPDATE %d delivered as %x (len %d), sent %x (len %d)", i, clip(got[i], 24), len(got[i]), clip(want[i], 24), len(want[i]))
			return
		}
	}
	sessionUp := p.Plug.IsUp() && !c.LocalClosed()
	if pipelineEst && p.Plug.NEst == 0 {
		w.Violate("C03/pipelined-handshake/not-established", "the remote sent its handshake KEEPALIVE and %d UPDATEs in one stream; the session was never reported Established", len(sent))
		return
	}
	if (finBehind || notifBehind) && len(got) != len(want) {
		w.Violate("C03/delivery/lost-before-close", "the remote sent %d UPDATEs and then closed the connection (FIN=%v, Cease=%v); only %d were delivered before the session ended", len(want), finBehind, notifBehind, len(got))
		return
	}
	if variant != 2 || notifAt >= len(sent) {
		if sessionUp && len(got) != len(want) {
			w.Violate("C03/delivery/lost", "session still up and quiescent but only %d of %d UPDATEs were delivered", len(got), len(want))
			return
		}
		if !sessionUp && !finBehind && !notifBehind {
			w.Probe("session-ended-early")
		}
	} else {
		// the handler's NOTIFICATION: verbatim on the wire, session ends, nothing later delivered
		if len(got) != len(want) {
			w.Violate("C03/delivery/lost", "only %d UPDATEs delivered before the handler's NOTIFICATION at index %d", len(got), notifAt)
			return
		}
		fs := NewFrames(c, before)
		wantBody := append([]byte{wantNotif.Code, wantNotif.Subcode}, wantNotif.Data...)
		var n []Frame
		for _, f := range fs {
			if f.Type == MsgNotification {
				n = append(n, f)
			}
		}
		if len(n) != 1 || !bytes.Equal(n[0].Body, wantBody) {
			w.Violate("C03/handler-notification/not-verbatim", "handler returned NOTIFICATION %x; corebgp wrote %s", wantBody, descFrames(fs))
			return
		}
		if !p.Plug.IsDown() || p.Plug.NClose != p.Plug.NEst || !c.LocalClosed() {
			w.Violate("C03/handler-notification/session-not-ended", "after the handler's NOTIFICATION: callback state %s, OnClose count %d, connection closed %v", p.Plug.StName(), p.Plug.NClose, c.LocalClosed())
			return
		}
	}
	if bad := p.Plug.CheckNoMutation(); bad != nil {
		w.Violate("C03/delivered-slice-mutated", "the slice delivered as UPDATE %d was modified after delivery", bad.Idx)
		return
	}
	// two deliveries must not share memory
	for i, a := range p.Plug.CBs {
		if a.Kind != "upd" || len(a.orig) == 0 {
			continue
		}
		for _, b := range p.Plug.CBs[i+1:] {
			if b.Kind == "upd" && len(b.orig) > 0 && &a.orig[0] == &b.orig[0] {
				w.Violate("C03/delivered-slices-alias", "two delivered UPDATE slices share their backing array")
				return
			}
		}
	}
	s.E.FinishRun()
	if bad := p.Plug.CheckNoMutation(); bad != nil {
		w.Violate("C03/delivered-slice-mutated", "the slice delivered as UPDATE %d was modified after delivery", bad.Idx)
	}
}
