package sim

import (
	"encoding/binary"
	"fmt"
	"time"

	"simrt"

	"github.com/jwhited/corebgp"
)

// Chaos is the many-peer, many-fault workload shared by C01, C05 and C10:
// per peer a remote site that accepts / refuses / stalls corebgp's dials and
// dials in itself (so collisions are common), connection scripts that behave
// well except for one drawn deviation at a drawn phase, plugin-side writers,
// and an API task that deletes and re-adds peers.
type ChaosOpts struct {
	MaxPeers       int
	Duration       time.Duration
	Churn          bool // DeletePeer / AddPeer during the run
	Deviations     bool
	Hostile        func(c *Conn, phase int) bool // optional extra behaviour (C05); true = script ends
	NoHandlerNotif bool
	NoServe        bool // the caller starts Serve itself
	AddInTasks     bool // every AddPeer runs in its own task (so its goroutines have a private ancestor)
	OnlyReAdd      bool // the churn task only re-adds deleted peers
	FreeWriters    bool // goroutines of the application that call WriteUpdate on their own schedule
}

// WriterRec is one free-running application goroutine that uses a session's writer.
type WriterRec struct {
	P      *PeerH
	Task   *simrt.Task
	InCall bool
	Since  time.Duration
	Calls  int
	Errs   int
}

type ChaosPeer struct {
	ch           *Chaos
	Idx          int
	Spec         PeerSpec
	RemoteID     string
	RemoteHold   uint16
	Cur          *PeerH
	Incarnations []*PeerH
	Present      bool
	Site         *Site
}

type Chaos struct {
	w       *World
	E       *Env
	Opts    ChaosOpts
	Peers   []*ChaosPeer
	Ending  bool
	Writers []*WriterRec
	// UpdTags maps a tag to the connection the remote sent it on
	NConnScripts int
}

func (ch *Chaos) newIncarnation(cp *ChaosPeer) *PeerH {
	p := ch.E.NewPeer(cp.Spec, cp.RemoteID, cp.RemoteHold)
	p.Plug.Name = fmt.Sprintf("%s/inc%d", cp.Spec.RemoteIP, len(cp.Incarnations))
	p.Plug.Oracle = ch.w.Prop == "C01" || ch.w.Prop == "C10"
	p.Plug.NilHandler = ch.w.Chance(1, 8, "nilhandler")
	cp.Incarnations = append(cp.Incarnations, p)
	cp.Cur = p
	w := ch.w
	p.Plug.EstFn = func(pl *Plug, s *Session) {
		if pl.Oracle {
			if s.Conn == nil {
				w.Violate(w.Prop+"/callbacks/established-without-connection", "OnEstablished by task %s which owns no connection", s.Est.Task)
			} else if s.Conn.LocalClosed() {
				w.Violate(w.Prop+"/callbacks/established-on-closed-connection", "OnEstablished for %s which corebgp already closed", s.Conn)
			}
		}
		for i, n := 0, w.Draw(3, "estwrites"); i < n; i++ {
			s.Writer.WriteUpdate([]byte{0xEE, 0, 0, byte(i)})
		}
		if ch.Opts.FreeWriters && w.Chance(1, 3, "free-writer") {
			// an application goroutine that keeps using this session's writer on its own
			// schedule, also while (and after) the session is torn down: every call
			// must return
			wr, rec := s.Writer, &WriterRec{P: p}
			ch.Writers = append(ch.Writers, rec)
			w.Fault("free-writer")
			rec.Task = w.S.Spawn(fmt.Sprintf("fw%d", len(ch.Writers)), "free-writer", func() {
				for i, n := 0, 1+w.Draw(16, "fw-n"); i < n && rec.Errs < 2; i++ {
					if w.Draw(3, "fw-pace") == 0 {
						w.Sleep(time.Duration(w.Range(1, 4000, "fw-ms")) * time.Millisecond)
					} else {
						w.Yield("free-writer")
					}
					rec.InCall, rec.Since = true, w.Now()
					err := wr.WriteUpdate([]byte{0xEF, 0, 0, byte(i)})
					rec.InCall = false
					rec.Calls++
					if err != nil {
						rec.Errs++
					}
				}
			})
		}
	}
	p.Plug.UpdFn = func(pl *Plug, s *Session, idx int, b []byte) *corebgp.Notification {
		if pl.Oracle && len(b) >= 6 && b[0] == 0xC0 && b[1] == 0x01 {
			id := int(binary.BigEndian.Uint16(b[2:]))
			if s.Conn == nil || s.Conn.ID != id {
				w.Violate(w.Prop+"/callbacks/update-from-other-connection", "handler of the session on %v received an UPDATE the remote sent on connection c%d", s.Conn, id)
			}
		}
		if !ch.Opts.NoHandlerNotif && w.Chance(1, 40, "handlernotif") {
			w.Fault("handler-notification")
			if s.Conn != nil {
				s.Conn.Tainted = true
			}
			return &corebgp.Notification{Code: 3, Subcode: 1}
		}
		return nil
	}
	return p
}

// NewChaos builds the environment and starts serving.
func NewChaos(w *World, o ChaosOpts) *Chaos {
	ch := &Chaos{w: w, Opts: o}
	localID := "10.0.0.5"
	ch.E = w.NewEnv(localID)
	if ch.E == nil {
		return nil
	}
	np := 1 + w.Draw(o.MaxPeers, "npeers")
	for k := 0; k < np; k++ {
		cp := &ChaosPeer{ch: ch, Idx: k}
		cp.Spec = PeerSpec{RemoteIP: fmt.Sprintf("10.0.1.%d", k+1), LocalAS: 65001, RemoteAS: uint32(65100 + k),
			Hold:         Pick(w, "hold", 9, 3, 30, 90, 0),
			IdleHold:     time.Duration(w.Range(5, 50, "idlehold")) * 100 * time.Millisecond,
			ConnectRetry: time.Duration(w.Range(10, 50, "retry")) * 100 * time.Millisecond,
			Passive:      w.Chance(1, 4, "passive")}
		cp.RemoteID = Pick(w, "rid", "10.0.0.4", "10.0.0.6", "10.0.0.5", "192.0.2.77")
		cp.RemoteHold = Pick(w, "rhold", uint16(9), 3, 30, 90, 0)
		p := ch.newIncarnation(cp)
		cp.Site = p.Site
		ch.Peers = append(ch.Peers, cp)
		if err := ch.E.Add(p); err != nil {
			w.HarnessError("chaos AddPeer: %v", err)
			return nil
		}
		cp.Present = true
	}
	if !o.NoServe {
		// one to three listeners (the extra ones see no traffic but have their own
		// acceptor goroutines, which shutdown must also collect)
		addrs := []string{"10.0.0.5:179", "10.0.0.6:179", "[fd00::5]:179"}
		ch.E.Serve(addrs[:1+w.Draw(3, "nlisteners")]...)
	}
	for _, cp := range ch.Peers {
		cp := cp
		cp.Site.DialPolicy = func(d *DialRec) int {
			switch v := w.Draw(20, "dialpolicy"); {
			case v < 13:
				return 1
			case v < 16:
				w.Fault("dial-refused-policy")
				return 2
			default:
				// leave pending: a script decides later (or never: stalled connect)
				w.Fault("dial-stalled")
				w.Go("late-dial", func() {
					if w.Chance(1, 3, "latedial-at-retry") {
						// complete (or refuse) the connect right around the connect-retry expiry
						w.Sleep(cp.Spec.ConnectRetry + time.Duration(w.Range(-3, 3, "latedial-eps"))*time.Millisecond)
						w.Probe("dial-answered-at-connect-retry-expiry")
					} else {
						w.Sleep(time.Duration(w.Range(0, 8000, "latedialms")) * time.Millisecond)
					}
					switch w.Draw(3, "latedial") {
					case 0:
						if c := d.Accept(); c != nil {
							ch.connScript(cp, c)
						}
					case 1:
						d.Refuse()
					}
				})
				return 0
			}
		}
		cp.Site.OnConn = func(c *Conn) { ch.connScript(cp, c) }
		// inbound attempts from the remote
		w.Go("inbound-dialler", func() {
			n := w.Draw(5, "ninbound")
			for i := 0; i < n && !ch.Ending; i++ {
				w.Sleep(time.Duration(w.Range(0, 12000, "inboundms")) * time.Millisecond)
				if ch.Ending {
					return
				}
				if w.Chance(1, 2, "inbound-when-busy") {
					// a timer wake-up finds the peer manager idle; half of the inbound
					// attempts wait for the peer to be in the middle of something
					if w.WaitUntil("inbound.busy", 6*time.Second, func() bool { return ch.peerBusy(cp) }) {
						w.Probe("inbound-while-busy")
						target := w.S.Steps + w.Draw(8, "inboundoffset")
						w.WaitUntil("inbound.offset", time.Second, func() bool { return w.S.Steps >= target })
					}
					if ch.Ending {
						return
					}
				}
				c := w.Net.DialIn(ch.E.Lis[0], cp.Site, cp.Spec.RemoteIP, ch.E.LocalIP)
				w.Go("inbound-conn", func() { ch.connScript(cp, c) })
			}
		})
	}
	if o.Churn {
		w.Go("api-churn", func() {
			n := w.Draw(4, "nchurn")
			for i := 0; i < n && !ch.Ending; i++ {
				w.Sleep(time.Duration(w.Range(0, 15000, "churnms")) * time.Millisecond)
				if ch.Ending {
					return
				}
				cp := ch.Peers[w.Draw(len(ch.Peers), "churnpeer")]
				if cp.Present && ch.Opts.OnlyReAdd {
					continue
				}
				if cp.Present && w.Chance(1, 2, "churn-when-busy") {
					// a timer wake-up always finds the system quiescent; half of the
					// deletions therefore wait until the peer is in the middle of
					// something (a callback executing, a frame just written) and land a
					// few scheduler steps later
					busy := func() bool {
						if st := cp.Cur.Plug.st; st == plInE || st == plInH || st == plInC {
							return true
						}
						for _, c := range cp.Site.ConnList() {
							c.mu.Lock()
							recent := len(c.Frames) > 0 && !c.LClosed && w.Seq()-c.Frames[len(c.Frames)-1].Seq < 4
							c.mu.Unlock()
							if recent {
								return true
							}
						}
						return false
					}
					if w.WaitUntil("churn.busy", 6*time.Second, busy) {
						w.Probe("deletepeer-while-busy")
						target := w.S.Steps + w.Draw(10, "churnoffset")
						w.WaitUntil("churn.offset", time.Second, func() bool { return w.S.Steps >= target })
					}
					if ch.Ending {
						return
					}
				}
				if cp.Present {
					old := cp.Cur
					err := ch.E.Srv.DeletePeer(old.Cfg.RemoteAddress)
					seq := w.Ev("DeletePeer %s returned err=%v", cp.Spec.RemoteIP, err)
					if err == nil {
						cp.Present = false
						old.Plug.MarkStopped(seq)
						w.Probe("deletepeer")
					}
				} else {
					p := ch.newIncarnation(cp)
					var err error
					if ch.Opts.AddInTasks {
						call := w.CallAsync("AddPeer", func() error { return ch.E.Add(p) })
						w.WaitUntil("addpeer", time.Minute, call.Done)
						err = call.Err
						p.AddTask = call.Task
					} else {
						err = ch.E.Add(p)
					}
					if err == nil {
						cp.Present = true
						w.Probe("re-addpeer")
					}
				}
			}
		})
	}
	return ch
}

const (
	devNone = iota
	devFIN
	devRST
	devSilence
	devCease
	devProtoNotif
	devGarbage
	devBadMsg
	devCrash
)

var devNames = []string{"none", "fin", "rst", "silence", "cease", "proto-notification", "garbage", "wrong-message", "crash"}

// deviate performs the drawn deviation on c.
func (ch *Chaos) deviate(cp *ChaosPeer, c *Conn, dev int) {
	w := ch.w
	w.Fault("deviation:" + devNames[dev])
	c.Tainted = true
	switch dev {
	case devFIN:
		c.FIN()
	case devRST:
		c.RST()
	case devSilence:
		w.WaitUntil("dev.silence", 6*time.Minute, func() bool { return c.LocalClosed() || ch.Ending })
		c.FIN()
	case devCease:
		c.Deliver(MkNotif(6, byte(w.Draw(9, "ceasesub")), nil))
		w.WaitUntil("dev.cease", 10*time.Second, c.LocalClosed)
		c.FIN()
	case devProtoNotif:
		c.Deliver(MkNotif(byte(w.Range(1, 5, "pcode")), byte(w.Draw(4, "psub")), w.RandBytes(w.Draw(6, "pdl"), "pd")))
		w.WaitUntil("dev.proto", 10*time.Second, c.LocalClosed)
		c.FIN()
	case devGarbage:
		// a faulty header, alone or pipelined behind a message that makes the FSM
		// leave its state (so that the reader's error report meets an FSM that has
		// already gone)
		var stream []byte
		switch w.Draw(4, "gpre") {
		case 1:
			stream = append(stream, MkNotif(byte(w.Range(1, 6, "gncode")), 0, nil)...)
		case 2:
			stream = append(stream, MkFrame(MsgOpen, GoodOpen(cp.Spec.RemoteAS, cp.RemoteHold, IPToU32(cp.RemoteID)))...)
			stream = append(stream, MkFrame(MsgOpen, GoodOpen(cp.Spec.RemoteAS, cp.RemoteHold, IPToU32(cp.RemoteID)))...)
		case 3:
			stream = append(stream, KeepaliveFrame()...)
		}
		m := AllOnes()
		switch w.Draw(5, "gkind") {
		case 0:
			m[w.Draw(16, "gidx")] = 0
			stream = append(stream, MkRawHeader(m, 19, 4, nil)...)
		case 1:
			stream = append(stream, MkRawHeader(m, uint16(Pick(w, "glen", 0, 18, 4097, 65535)), 4, nil)...)
		case 2:
			stream = append(stream, MkRawHeader(m, 19, byte(Pick(w, "gtype", 0, 5, 200)), nil)...)
		case 3: // lengths that are wrong for the message type
			stream = append(stream, MkRawHeader(m, 20, 4, []byte{0})...)
		default:
			stream = append(stream, MkRawHeader(m, 20, 3, []byte{6})...)
		}
		c.SendSeg(stream)
		switch w.Draw(4, "gclose") {
		case 1: // two errors in one round: the fault and a TCP close
			c.FIN()
		case 2:
			c.RST()
		default:
			w.WaitUntil("dev.garbage", 10*time.Second, c.LocalClosed)
			c.FIN()
		}
	case devBadMsg:
		// OPEN is illegal in OpenConfirm/Established, fine (a second OPEN) in none: use it everywhere but OpenSent
		c.SendSeg(MkFrame(MsgOpen, GoodOpen(cp.Spec.RemoteAS, cp.RemoteHold, IPToU32(cp.RemoteID))))
		c.SendSeg(MkFrame(MsgOpen, GoodOpen(cp.Spec.RemoteAS, cp.RemoteHold, IPToU32(cp.RemoteID))))
		w.WaitUntil("dev.badmsg", 10*time.Second, c.LocalClosed)
		c.FIN()
	case devCrash:
		for _, x := range cp.Site.ConnList() {
			if !x.RemoteClosed() {
				x.RST()
			}
		}
	}
}

// connScript is the remote side of one connection.
func (ch *Chaos) connScript(cp *ChaosPeer, c *Conn) {
	w := ch.w
	ch.NConnScripts++
	dev, phase := devNone, 0
	if ch.Opts.Deviations && w.Chance(11, 20, "deviate") {
		dev = 1 + w.Draw(8, "dev")
		phase = w.Draw(4, "devphase")
	}
	sp := cp.Cur.Speaker
	fin := func() {
		if !c.RemoteClosed() {
			w.WaitUntil("conn.end", 10*time.Minute, func() bool { return c.LocalClosed() || ch.Ending })
			c.FIN()
		}
	}
	hostile := func(ph int) bool {
		return ch.Opts.Hostile != nil && ch.Opts.Hostile(c, ph)
	}
	if hostile(0) {
		fin()
		return
	}
	if dev != devNone && phase == 0 {
		ch.deviate(cp, c, dev)
		return
	}
	o := ExpectOpen(c, 5*time.Minute)
	if o == nil {
		fin()
		return
	}
	if hostile(1) {
		fin()
		return
	}
	if dev != devNone && phase == 1 {
		ch.deviate(cp, c, dev)
		return
	}
	// think time: creates quiescent points inside the handshake
	think := func() {
		if w.Chance(1, 3, "think") {
			w.Sleep(time.Duration(w.Range(1, 400, "thinkms")) * time.Millisecond)
		}
	}
	think()
	c.SendSeg(sp.OpenFrame())
	f := c.WaitFrame(5 * time.Minute)
	if f == nil || f.Type != MsgKeepalive {
		fin()
		return
	}
	if hostile(2) {
		fin()
		return
	}
	if dev != devNone && phase == 2 {
		ch.deviate(cp, c, dev)
		return
	}
	if w.Chance(1, 6, "kadelay") {
		w.Sleep(time.Duration(w.Range(1, 3000, "kadelayms")) * time.Millisecond)
	} else {
		think()
	}
	c.SendSeg(KeepaliveFrame())
	if hostile(3) {
		fin()
		return
	}
	// tagged UPDATEs: [C0 01 connID(2) n(2)]
	nup := w.Draw(4, "nupd")
	for i := 0; i < nup && !c.LocalClosed() && !c.RemoteClosed(); i++ {
		b := []byte{0xC0, 0x01, 0, 0, 0, 0}
		binary.BigEndian.PutUint16(b[2:], uint16(c.ID))
		binary.BigEndian.PutUint16(b[4:], uint16(i))
		c.SendSeg(MkFrame(MsgUpdate, b))
		if w.Chance(1, 2, "upddelay") {
			w.Sleep(time.Duration(w.Range(1, 2000, "upddelayms")) * time.Millisecond)
		}
	}
	if dev != devNone && phase == 3 {
		end := w.Now() + time.Duration(w.Range(0, 20000, "devafterms"))*time.Millisecond
		r := sp.KeepAlive(c, o, func() bool { return w.Now() >= end || ch.Ending })
		if r == "stopped" && !ch.Ending {
			ch.deviate(cp, c, dev)
		}
		return
	}
	sp.KeepAlive(c, o, func() bool { return ch.Ending })
	fin()
}

// AllPlugs returns the plugin recorder of every peer incarnation.
func (ch *Chaos) AllPlugs() []*Plug {
	var out []*Plug
	for _, cp := range ch.Peers {
		for _, p := range cp.Incarnations {
			out = append(out, p.Plug)
		}
	}
	return out
}

// peerBusy reports whether the peer is in the middle of something right now:
// a callback executing, or a frame written within the last few events.
func (ch *Chaos) peerBusy(cp *ChaosPeer) bool {
	w := ch.w
	if st := cp.Cur.Plug.st; st == plInE || st == plInH || st == plInC {
		return true
	}
	for _, c := range cp.Site.ConnList() {
		c.mu.Lock()
		recent := len(c.Frames) > 0 && !c.LClosed && w.Seq()-c.Frames[len(c.Frames)-1].Seq < 4
		c.mu.Unlock()
		if recent {
			return true
		}
	}
	return false
}

// StuckWriter returns a free-running writer that is still inside WriteUpdate
// (for peer only, or for any peer when only is nil), or nil.
func (ch *Chaos) StuckWriter(only *PeerH) *WriterRec {
	for _, r := range ch.Writers {
		if r.InCall && (only == nil || r.P == only) {
			return r
		}
	}
	return nil
}
