package sim

import (
	"fmt"
	"sort"
	"testing"
	"testing/synctest"
	"time"

	"simrt"

	"github.com/jwhited/corebgp"
)

// Property is one checkable property: Run is the root script of a run.
type Property struct {
	ID  string
	Run func(w *World)
	// Rule describes how cases are generated and what makes one non-trivial.
	Rule string
	// Post, if set, runs after the bubble was left (real clock, no scheduler):
	// history checks that need real time, e.g. porcupine with a timeout.
	Post func(w *World)
}

var registry = map[string]*Property{}

func register(p *Property) { registry[p.ID] = p }

func PropertyIDs() []string {
	var ids []string
	for id := range registry {
		ids = append(ids, id)
	}
	sort.Strings(ids)
	return ids
}

// RunOne executes one simulated run of prop from tape tp inside a fresh bubble.
func RunOne(t *testing.T, prop *Property, tier string, tp *Tape, keepLog bool) (res *RunResult) {
	res = &RunResult{}
	var w *World
	func() {
		defer func() {
			if r := recover(); r != nil {
				// leaving the bubble failed (tasks that could not be aborted) or the
				// harness itself panicked
				if res.HErr == "" {
					res.HErr = fmt.Sprintf("bubble panic: %v", r)
				}
			}
		}()
		synctest.Test(t, func(t *testing.T) {
			w = NewWorld(prop.ID, tier, tp, keepLog)
			w.T0 = time.Now()
			s := simrt.New(tp)
			w.S = s
			w.Net = newNet(w)
			s.Dial = w.Net.dial
			simrt.Install(s)
			defer simrt.Uninstall()
			defer corebgp.SetLogger(nil)
			s.SelectHook = func(site string, n, chosen int, blocked bool) {
				// reach probes for the peer manager's multi-way selects (collision kill race etc.)
				if n >= 3 && len(site) > 7 && site[:7] == "peer.go" {
					w.Probe(fmt.Sprintf("select:%s#%d", site, chosen))
				}
			}
			w.pickStrategy()
			// which timer-channel semantics corebgp runs under: Go >= 1.23 (native) or
			// the emulated pre-1.23 ones a main module declaring go < 1.23 would get
			if w.Draw(2, "timer-semantics") == 1 {
				s.OldTimers = true
				w.Probe("timer-semantics:pre-go1.23")
			} else {
				w.Probe("timer-semantics:go1.23+")
			}
			s.Spawn("root", "root", func() {
				prop.Run(w)
				w.rootDone = true
			})
			w.loop()
			// freeze the log, then make every remaining task exit
			w.mu.Lock()
			w.done = true
			w.mu.Unlock()
			res.Steps = s.Steps
			res.SimTime = time.Since(w.T0)
			s.Abort()
			for i := 0; i < 1000 && s.NumAlive() > 0; i++ {
				synctest.Wait()
				if s.NumAlive() > 0 {
					time.Sleep(time.Hour) // let natively sleeping goroutines reach a simrt entry
				}
			}
			if n := s.NumAlive(); n > 0 && w.HErr == "" {
				w.HErr = fmt.Sprintf("%d tasks could not be aborted: %s", n, w.aliveSummary())
			}
		})
	}()
	if w == nil {
		if res.HErr == "" {
			res.HErr = "bubble did not start"
		}
		return res
	}
	if prop.Post != nil && w.Viol == nil && w.HErr == "" && res.HErr == "" {
		w.done = false
		prop.Post(w)
		w.done = true
	}
	for k := range w.Sample {
		if len(k) > 0 && k[0] == '_' {
			delete(w.Sample, k)
		}
	}
	res.Hash = w.hash
	res.RelHash = w.relHash
	res.NonTrivial = w.NonTrivial
	res.Viol = w.Viol
	if res.HErr == "" {
		res.HErr = w.HErr
	}
	res.Probes = w.Probes
	res.Faults = w.Faults
	res.States = w.States
	res.Trans = w.Trans
	res.Budget = w.BudgetExhausted
	res.Log = w.Log
	res.Sample = w.Sample
	res.TapeN, res.TapeV = tp.Recorded()
	res.Diverged = tp.Diverged
	return res
}
