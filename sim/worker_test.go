package sim

import (
	"encoding/json"
	"flag"
	"fmt"
	"os"
	"path/filepath"
	"runtime"
	"sort"
	"strings"
	"sync/atomic"
	"testing"
	"time"

	"simrt"
)

var (
	fProp    = flag.String("prop", "", "property id")
	fTier    = flag.String("tier", "quick", "quick|thorough")
	fSeed    = flag.Uint64("seed", 1, "VERIF_SEED")
	fFrom    = flag.Uint64("from", 0, "first run index")
	fTo      = flag.Uint64("to", 1, "one past the last run index")
	fStride  = flag.Uint64("stride", 1, "run index stride")
	fBudget  = flag.Float64("budget", 0, "wall-clock budget in seconds (0 = none)")
	fOut     = flag.String("out", "", "result file")
	fReplay  = flag.String("replay", "", "replay file to re-execute")
	fConfirm = flag.Bool("confirm", false, "with -replay: strict (same signature and trace hash required)")
	fRepDir  = flag.String("replaydir", "", "where to write replay files")
	fVerbose = flag.Bool("vv", false, "print the event log of every run")
	fHashes  = flag.Bool("runhashes", false, "record the trace hash of every run")
	fNoShr   = flag.Bool("noshrink", false, "do not minimise failing runs")
	fNoRep   = flag.Bool("noreplay", false, "stop at the first violation and write no replay file (sequence replays: nothing but the runs themselves executes in the process)")
)

type ViolOut struct {
	Sig    string `json:"sig"`
	Detail string `json:"detail"`
	Seed   uint64 `json:"seed"`
	Run    uint64 `json:"run"`
	Replay string `json:"replay"`
	Hash   string `json:"hash"`
}

type WorkerOut struct {
	Prop      string            `json:"prop"`
	Tier      string            `json:"tier"`
	Seed      uint64            `json:"seed"`
	Runs      int               `json:"runs"`
	Steps     int64             `json:"steps"`
	SimNS     int64             `json:"sim_ns"`
	MaxSimNS  int64             `json:"max_sim_ns"`
	WallS     float64           `json:"wall_s"`
	RelHashes []string          `json:"rel_hashes"`
	Traces    []string          `json:"trace_hashes"`
	NonTriv   int               `json:"nontrivial_runs"`
	Probes    map[string]int    `json:"probes"`
	Faults    map[string]int    `json:"faults"`
	States    []string          `json:"states"`
	Trans     []string          `json:"trans"`
	Budget    int               `json:"budget_exhausted"`
	Viols     []ViolOut         `json:"violations"`
	HErrs     []string          `json:"harness_errors"`
	Samples   []map[string]any  `json:"samples"`
	RunHashes map[string]string `json:"run_hashes,omitempty"`
	AggHash   string            `json:"agg_hash"`
	Rule      string            `json:"rule"`
}

// ReplayFile is the on-disk form of a (minimised) failing run.
type ReplayFile struct {
	Property string         `json:"property"`
	Tier     string         `json:"tier"`
	Seed     uint64         `json:"seed"`
	Run      uint64         `json:"run"`
	Sig      string         `json:"signature"`
	Detail   string         `json:"detail"`
	Hash     string         `json:"trace_hash"`
	TapeN    []uint32       `json:"tape_n"`
	TapeV    []uint32       `json:"tape_v"`
	OrigLen  int            `json:"original_tape_len"`
	Shrinks  int            `json:"shrink_reruns"`
	Scenario map[string]any `json:"scenario,omitempty"`
	Choices  []string       `json:"non_default_choices"`
	Trace    []string       `json:"trace"`
}

// Hang watchdog: the simulator cannot preempt a goroutine that spins without
// ever reaching a schedule point (an unbounded loop inside corebgp). If no
// scheduler step happens for hangLimit of wall-clock time while a run is
// active, the worker writes what it knows (tape so far, the corebgp frame that
// is running) next to its result file and exits with status 4; the driver
// confirms by replaying the tape under a timeout.
var (
	wdRun     atomic.Int64 // current run index, -1 when idle
	wdTape    atomic.Pointer[Tape]
	hangLimit = 30 * time.Second
)

type HangFile struct {
	Property string   `json:"property"`
	Tier     string   `json:"tier"`
	Seed     uint64   `json:"seed"`
	Run      int64    `json:"run"`
	Sig      string   `json:"signature"`
	Detail   string   `json:"detail"`
	TapeN    []uint32 `json:"tape_n"`
	TapeV    []uint32 `json:"tape_v"`
	Kind     string   `json:"kind"`
}

func watchdog(prop string) {
	var lastRun, lastSteps int64 = -2, -1
	since := time.Now()
	for {
		time.Sleep(time.Second)
		run := wdRun.Load()
		steps := simrt.GlobalSteps.Load()
		if run < 0 || run != lastRun || steps != lastSteps {
			lastRun, lastSteps, since = run, steps, time.Now()
			continue
		}
		if time.Since(since) < hangLimit {
			continue
		}
		buf := make([]byte, 1<<20)
		buf = buf[:runtime.Stack(buf, true)]
		fn := "unknown"
		// the spinning goroutine is "running" or "runnable"
		for _, g := range strings.Split(string(buf), "\n\n") {
			if !strings.Contains(g, "[running") && !strings.Contains(g, "[runnable") {
				continue
			}
			if fr := topLibFrame(g); fr != "" {
				fn = fr
				if i := strings.Index(fn, "@"); i >= 0 {
					fn = fn[:i]
				}
				break
			}
		}
		hf := HangFile{Property: prop, Tier: *fTier, Seed: *fSeed, Run: run, Kind: "hang",
			Sig:    prop + "/hang/" + fn,
			Detail: fmt.Sprintf("no scheduler step for %v of wall-clock time: a goroutine spins inside corebgp (%s) without reaching a schedule point", hangLimit, fn)}
		if tp := wdTape.Load(); tp != nil {
			hf.TapeN, hf.TapeV = tp.Recorded()
		}
		js, _ := json.MarshalIndent(hf, "", " ")
		if *fOut != "" {
			os.WriteFile(*fOut+".hang.json", js, 0o644)
		}
		fmt.Printf("HANG %s\n", hf.Sig)
		os.Exit(4)
	}
}

func TestWorker(t *testing.T) {
	if *fProp == "" && *fReplay == "" {
		t.Skip("no -prop given")
	}
	wdRun.Store(-1)
	go watchdog(*fProp)
	if *fReplay != "" {
		doReplay(t)
		return
	}
	prop := registry[*fProp]
	if prop == nil {
		fmt.Printf("unknown property %q\n", *fProp)
		os.Exit(2)
	}
	out := &WorkerOut{Prop: prop.ID, Tier: *fTier, Seed: *fSeed, Probes: map[string]int{}, Faults: map[string]int{},
		Rule: prop.Rule}
	if *fHashes {
		out.RunHashes = map[string]string{}
	}
	rel := map[uint64]struct{}{}
	traces := map[uint64]struct{}{}
	states := map[string]struct{}{}
	trans := map[string]struct{}{}
	start := time.Now()
	var agg uint64 = fnvOff
	seenSig := map[string]bool{}
	for run := *fFrom; run < *fTo; run += *fStride {
		if *fBudget > 0 && time.Since(start).Seconds() > *fBudget {
			break
		}
		tp := NewTape(*fSeed, run)
		keep := *fVerbose || len(out.Samples) < 2
		wdTape.Store(tp)
		wdRun.Store(int64(run))
		r := RunOne(t, prop, *fTier, tp, keep)
		wdRun.Store(-1)
		out.Runs++
		out.Steps += int64(r.Steps)
		out.SimNS += int64(r.SimTime)
		if int64(r.SimTime) > out.MaxSimNS {
			out.MaxSimNS = int64(r.SimTime)
		}
		agg = agg*fnvPrime ^ r.Hash
		traces[r.Hash] = struct{}{}
		if *fHashes {
			out.RunHashes[fmt.Sprint(run)] = fmt.Sprintf("%016x", r.Hash)
		}
		if *fVerbose {
			fmt.Printf("---- run %d hash %016x steps %d simtime %v viol=%v herr=%q\n", run, r.Hash, r.Steps, r.SimTime, r.Viol, r.HErr)
			for _, l := range r.Log {
				fmt.Println(l)
			}
		}
		for k, v := range r.Probes {
			out.Probes[k] += v
		}
		for k, v := range r.Faults {
			out.Faults[k] += v
		}
		for k := range r.States {
			states[k] = struct{}{}
		}
		for k := range r.Trans {
			trans[k] = struct{}{}
		}
		if r.Budget {
			out.Budget++
		}
		if r.NonTrivial {
			out.NonTriv++
			rel[r.RelHash] = struct{}{}
		}
		if r.HErr != "" {
			if len(out.HErrs) < 5 {
				out.HErrs = append(out.HErrs, fmt.Sprintf("seed %d run %d: %s", *fSeed, run, r.HErr))
			}
			continue
		}
		if keep && len(out.Samples) < 2 && r.Viol == nil {
			s := r.Sample
			if s == nil {
				s = map[string]any{}
			}
			s["run"] = run
			s["steps"] = r.Steps
			s["sim_time"] = r.SimTime.String()
			tr := r.Log
			if len(tr) > 60 {
				tr = append(append([]string{}, tr[:40]...), fmt.Sprintf("... (%d more events)", len(tr)-40))
			}
			s["trace_head"] = tr
			out.Samples = append(out.Samples, s)
		}
		if r.Viol != nil {
			if seenSig[r.Viol.Sig] {
				continue
			}
			seenSig[r.Viol.Sig] = true
			v := ViolOut{Sig: r.Viol.Sig, Detail: r.Viol.Detail, Seed: *fSeed, Run: run, Hash: fmt.Sprintf("%016x", r.Hash)}
			if *fNoRep {
				out.Viols = append(out.Viols, v)
				break
			}
			v.Replay = writeReplay(t, prop, run, r)
			out.Viols = append(out.Viols, v)
		}
	}
	out.WallS = time.Since(start).Seconds()
	out.AggHash = fmt.Sprintf("%016x", agg)
	for h := range rel {
		out.RelHashes = append(out.RelHashes, fmt.Sprintf("%016x", h))
	}
	sort.Strings(out.RelHashes)
	for h := range traces {
		out.Traces = append(out.Traces, fmt.Sprintf("%016x", h))
	}
	for k := range states {
		out.States = append(out.States, k)
	}
	sort.Strings(out.States)
	for k := range trans {
		out.Trans = append(out.Trans, k)
	}
	sort.Strings(out.Trans)
	js, _ := json.Marshal(out)
	if *fOut != "" {
		if err := os.WriteFile(*fOut, js, 0o644); err != nil {
			fmt.Println("cannot write result:", err)
			os.Exit(2)
		}
	} else {
		fmt.Printf("runs %d steps %d sim %v wall %.2fs agg %s nontrivial %d distinct %d viol %d herr %d budget %d\n",
			out.Runs, out.Steps, time.Duration(out.SimNS), out.WallS, out.AggHash, out.NonTriv, len(rel), len(out.Viols), len(out.HErrs), out.Budget)
		pj, _ := json.Marshal(out.Probes)
		fj, _ := json.Marshal(out.Faults)
		fmt.Printf("probes %s\nfaults %s\n", pj, fj)
		for _, v := range out.Viols {
			fmt.Printf("VIOL %s run %d replay %s\n   %s\n", v.Sig, v.Run, v.Replay, firstLines(v.Detail, 6))
		}
		for _, h := range out.HErrs {
			fmt.Printf("HERR %s\n", firstLines(h, 12))
		}
	}
}

func firstLines(s string, n int) string {
	l := strings.Split(s, "\n")
	if len(l) > n {
		l = l[:n]
	}
	return strings.Join(l, "\n   ")
}

// writeReplay minimises the failing run, re-records it and writes the replay file.
func writeReplay(t *testing.T, prop *Property, run uint64, r *RunResult) string {
	vals := r.TapeV
	tries := 0
	if !*fNoShr {
		vals, tries = Shrink(t, prop, *fTier, vals, r.Viol.Sig, 600)
	}
	// re-record the minimised run (with its log) so the file replays strictly
	ftp := NewReplayTape(vals)
	ftp.KeepLabels = true
	fin := RunOne(t, prop, *fTier, ftp, true)
	if fin.Viol == nil || fin.Viol.Sig != r.Viol.Sig {
		ftp = NewReplayTape(r.TapeV)
		ftp.KeepLabels = true
		// shrinking result did not reproduce (should not happen): fall back to the original
		fin = RunOne(t, prop, *fTier, ftp, true)
		if fin.Viol == nil {
			return ""
		}
	}
	rf := ReplayFile{Property: prop.ID, Tier: *fTier, Seed: *fSeed, Run: run, Sig: fin.Viol.Sig, Detail: fin.Viol.Detail,
		Hash: fmt.Sprintf("%016x", fin.Hash), TapeN: fin.TapeN, TapeV: fin.TapeV, OrigLen: len(r.TapeV), Shrinks: tries,
		Scenario: fin.Sample, Trace: fin.Log, Choices: ftp.NonZero()}
	dir := *fRepDir
	if dir == "" {
		dir = os.TempDir()
	}
	os.MkdirAll(dir, 0o755)
	name := filepath.Join(dir, fmt.Sprintf("%s-%d-%d.json", prop.ID, *fSeed, run))
	js, _ := json.MarshalIndent(rf, "", " ")
	if err := os.WriteFile(name, js, 0o644); err != nil {
		return ""
	}
	return name
}

func doReplay(t *testing.T) {
	b, err := os.ReadFile(*fReplay)
	if err != nil {
		fmt.Println("cannot read replay file:", err)
		os.Exit(2)
	}
	var rf ReplayFile
	if err := json.Unmarshal(b, &rf); err != nil {
		fmt.Println("bad replay file:", err)
		os.Exit(2)
	}
	prop := registry[rf.Property]
	if prop == nil {
		fmt.Println("unknown property", rf.Property)
		os.Exit(2)
	}
	var tp *Tape
	if *fConfirm {
		tp = NewStrictReplayTape(rf.TapeN, rf.TapeV)
	} else {
		tp = NewReplayTape(rf.TapeV)
	}
	wdTape.Store(tp)
	wdRun.Store(int64(rf.Run))
	r := RunOne(t, prop, rf.Tier, tp, true)
	wdRun.Store(-1)
	if *fVerbose {
		for _, l := range r.Log {
			fmt.Println(l)
		}
	}
	res := map[string]any{"hash": fmt.Sprintf("%016x", r.Hash), "diverged": r.Diverged, "herr": r.HErr}
	if r.Viol != nil {
		res["sig"] = r.Viol.Sig
		res["detail"] = r.Viol.Detail
	}
	res["same_hash"] = fmt.Sprintf("%016x", r.Hash) == rf.Hash
	res["same_sig"] = r.Viol != nil && r.Viol.Sig == rf.Sig
	js, _ := json.Marshal(res)
	if *fOut != "" {
		os.WriteFile(*fOut, js, 0o644)
	}
	fmt.Printf("REPLAY-RESULT %s\n", js)
}
