package sim

import (
	"bytes"
	"fmt"
	"net/netip"
	"time"

	"github.com/jwhited/corebgp"
)

// C08 — receive-side header validation, stream framing, NOTIFICATION fidelity.
func init() {
	register(&Property{ID: "C08", Run: runC08,
		Rule: "per run: state x direction x k preceding well-formed messages x one faulty header (marker octet / length / type, boundary values favoured) x trailing UPDATE, cut into tape-chosen TCP segments; or a fidelity case (plugin-returned NOTIFICATION of a boundary data length); non-trivial when the target state was reached and the bytes were delivered; distinct = distinct (state, fault kind and value, k, reaction frames)"})
}

func runC08(w *World) {
	w.NoStall = true
	st := w.Draw(3, "state")
	dir := Dir(w.Draw(2, "dir"))
	mode := w.Draw(8, "mode") // 0..4 header fault, 5 positive boundary, 6,7 fidelity
	var wantNotif *corebgp.Notification
	fidelityAt := -1
	s := NewStd1(w, Std1Opts{Dir: dir, Passive: dir == DirIn && w.Draw(2, "passive") == 1, LocalHold: 90, RemoteHold: 90, Vary: true,
		Configure: func(p *PeerH) {
			if mode >= 6 {
				dl := Pick(w, "datalen", 0, 1, 2, 3, 255, 1000, 4075, -1)
				if dl < 0 {
					dl = w.Range(0, 4075, "datalenr")
				}
				wantNotif = &corebgp.Notification{Code: byte(w.Draw(256, "code")), Subcode: byte(w.Draw(256, "sub")), Data: w.RandBytes(dl, "data")}
				if dl == 0 && w.Draw(2, "nildata") == 0 {
					wantNotif.Data = nil
				}
				if st == StEstablished {
					fidelityAt = w.Draw(3, "fidx")
					p.Plug.UpdFn = func(pl *Plug, s *Session, idx int, b []byte) *corebgp.Notification {
						if idx == fidelityAt {
							return wantNotif
						}
						return nil
					}
				} else {
					p.Plug.OpenFn = func(_ netip.Addr, _ []corebgp.Capability) *corebgp.Notification { return wantNotif }
				}
			}
		}})
	if s == nil {
		return
	}
	p := s.P
	if mode < 6 { // (the fidelity plugin refuses every OPEN / returns a NOTIFICATION by index)
		s.PriorSession(w)
	}
	c := s.E.OpenConn(p, dir, time.Minute)
	if c == nil {
		w.HarnessError("C08: no connection")
		return
	}
	target := st
	if mode >= 6 && st != StEstablished {
		target = StOpenSent
	}
	if _, err := s.E.Advance(p, c, target, time.Minute); err != nil {
		w.Probe("setup-failed")
		w.Sample["setup_error"] = err.Error()
		s.E.FinishRun()
		return
	}
	before := c.NFrames()
	nupd0, nest0, nopen0, nclose0 := p.Plug.NUpd, p.Plug.NEst, p.Plug.NOpen, p.Plug.NClose
	sig := func(clause string) string { return "C08/" + clause + "/" + stNames[st] }

	// ---------- fidelity clause ----------
	if mode >= 6 {
		w.Probe(fmt.Sprintf("fidelity:%s:datalen=%s", stNames[target], lenClass(len(wantNotif.Data))))
		if target == StEstablished {
			for i := 0; i <= fidelityAt; i++ {
				c.SendSeg(MkFrame(MsgUpdate, []byte{0, 0, 0, byte(i)}))
			}
		} else {
			c.SendSeg(p.Speaker.OpenFrame())
		}
		w.Quiesce()
		w.NonTrivial = true
		fs := NewFrames(c, before)
		w.Rel(fmt.Sprintf("fid|%d|%d|%d|%d|%s", target, wantNotif.Code, wantNotif.Subcode, len(wantNotif.Data), descFrames(fs)))
		w.Sample["case"] = fmt.Sprintf("fidelity in %s: plugin returns NOTIFICATION(%d,%d,%d data bytes)", stNames[target], wantNotif.Code, wantNotif.Subcode, len(wantNotif.Data))
		w.Sample["reaction"] = descFrames(fs)
		want := append([]byte{wantNotif.Code, wantNotif.Subcode}, wantNotif.Data...)
		var got []Frame
		for _, f := range fs {
			if f.Type == MsgNotification {
				got = append(got, f)
			}
		}
		if len(got) != 1 || !bytes.Equal(got[0].Body, want) {
			detail := "none"
			if len(got) > 0 {
				detail = fmt.Sprintf("code=%d sub=%d datalen=%d", got[0].Body[0], got[0].Body[1], len(got[0].Body)-2)
			}
			w.Violate(fmt.Sprintf("C08/notification-fidelity/datalen-%s", lenClass(len(wantNotif.Data))),
				"plugin returned NOTIFICATION(%d,%d) with %d data bytes; on the wire: %d NOTIFICATION frame(s), first: %s", wantNotif.Code, wantNotif.Subcode, len(wantNotif.Data), len(got), detail)
			return
		}
		if !c.LocalClosed() {
			w.Violate(sig("not-closed"), "connection still open after the plugin's NOTIFICATION was sent")
			return
		}
		if p.Plug.NEst != nest0 {
			w.Violate(sig("established-after-refusal"), "OnEstablished fired although OnOpenMessage refused the session")
			return
		}
		s.E.FinishRun()
		return
	}

	// ---------- header faults ----------
	var stream []byte
	var preUpd [][]byte
	k := w.Draw(4, "k")
	preKind := ""
	switch st {
	case StEstablished:
		for i := 0; i < k; i++ {
			if w.Draw(3, "prekind") == 0 {
				stream = append(stream, KeepaliveFrame()...)
			} else {
				b := append([]byte{0xC8, byte(i)}, w.RandBytes(w.Range(0, 40, "prelen"), "pre")...)
				preUpd = append(preUpd, b)
				stream = append(stream, MkFrame(MsgUpdate, b)...)
			}
		}
	case StOpenConfirm:
		if k > 0 {
			preKind = "keepalive"
			stream = append(stream, KeepaliveFrame()...)
		}
	case StOpenSent:
		if k > 0 {
			preKind = "open"
			stream = append(stream, p.Speaker.OpenFrame()...)
		}
	}
	marker := AllOnes()
	length := uint16(19)
	typ := byte(MsgKeepalive)
	var body []byte
	var wantSub byte
	var wantData []byte
	faultDesc := ""
	positive := false
	switch {
	case mode == 5: // positive boundaries: minimal and maximal legal messages
		positive = true
		if st == StEstablished {
			if w.Draw(2, "posk") == 0 {
				faultDesc = "len19-keepalive"
			} else {
				faultDesc = "len4096-update"
				typ = MsgUpdate
				body = w.RandBytes(4077, "maxupd")
				length = 4096
				preUpd = append(preUpd, body)
			}
		} else {
			faultDesc = "none"
		}
	case mode <= 1: // marker
		i := w.Draw(16, "markeridx")
		v := Pick(w, "markerval", byte(0x00), byte(0xFE), byte(0x7F), byte(w.Draw(255, "mv")))
		if v == 0xFF {
			v = 0xFE
		}
		marker[i] = v
		wantSub = 1
		faultDesc = fmt.Sprintf("marker[%d]=%#x", i, v)
		w.Probe(fmt.Sprintf("marker-octet-%d", i))
		// the rest of the header may be anything legal
		if w.Draw(2, "mkbody") == 1 {
			typ = MsgUpdate
			body = w.RandBytes(w.Range(0, 30, "mblen"), "mb")
			length = uint16(19 + len(body))
		}
	case mode <= 3: // length
		l := Pick(w, "len", 0, 1, 18, 4097, 4098, 65535, -1, -2)
		if l == -1 {
			l = w.Range(0, 18, "lensmall")
		} else if l == -2 {
			l = w.Range(4097, 65535, "lenbig")
		}
		length = uint16(l)
		typ = byte(w.Range(1, 4, "lentype"))
		body = w.RandBytes(w.Range(0, 40, "lenbody"), "lb")
		wantSub = 2
		faultDesc = fmt.Sprintf("length=%d", l)
		w.Probe("length-class:" + lenFaultClass(l))
	default: // type
		t := w.Draw(252, "type")
		if t == 0 {
			typ = 0
		} else {
			typ = byte(t + 4) // 5..255
		}
		bl := Pick(w, "typebodylen", 0, 1, 10, 4077, -1)
		if bl < 0 {
			bl = w.Range(0, 4077, "tbl")
		}
		body = w.RandBytes(bl, "tb")
		length = uint16(19 + bl)
		wantSub = 3
		wantData = []byte{typ}
		faultDesc = fmt.Sprintf("type=%d bodylen=%d", typ, bl)
	}
	trailer := append([]byte{0x7A, 0x7A}, w.RandBytes(6, "trail")...)
	if faultDesc != "none" {
		stream = append(stream, MkRawHeader(marker, length, typ, body)...)
	}
	// the remote sometimes ends the stream right behind its last byte (everything it
	// sent still has to be read and judged), and the faulty header may then be the
	// very last thing in the stream
	finBehind := !positive && w.Chance(1, 4, "fin-behind")
	if !positive && !(finBehind && w.Chance(1, 2, "no-trailer")) {
		stream = append(stream, MkFrame(MsgUpdate, trailer)...)
	}
	if len(stream) == 0 {
		s.E.FinishRun()
		return
	}
	c.SendSeg(stream)
	if finBehind {
		c.FIN()
		w.Probe("fin-right-behind-the-stream")
	}
	w.Quiesce()
	w.NonTrivial = true
	fs := NewFrames(c, before)
	w.Rel(fmt.Sprintf("%d|%s|%d|%s|%s", st, faultDesc, k, preKind, descFrames(fs)))
	w.Sample["case"] = fmt.Sprintf("%s %s: %d preceding message(s), fault %s, then a trailing UPDATE", stNames[st], dir, k, faultDesc)
	w.Sample["reaction"] = descFrames(fs)

	// the earlier messages took effect
	var delivered [][]byte
	for _, cb := range p.Plug.CBs {
		if cb.Kind == "upd" {
			delivered = append(delivered, cb.Update)
		}
	}
	delivered = delivered[nupd0:]
	for _, d := range delivered {
		if bytes.Equal(d, trailer) {
			w.Violate(sig("interpreted-after-fault"), "the UPDATE that follows the faulty header (%s) was delivered to the handler", faultDesc)
			return
		}
	}
	if len(delivered) != len(preUpd) {
		w.Violate(sig("earlier-message-lost"), "%d well-formed UPDATEs preceded the faulty header (%s) but %d were delivered", len(preUpd), faultDesc, len(delivered))
		return
	}
	for i := range preUpd {
		if !bytes.Equal(preUpd[i], delivered[i]) {
			w.Violate(sig("earlier-message-corrupted"), "UPDATE %d preceding the fault was delivered as %x, sent %x", i, delivered[i], preUpd[i])
			return
		}
	}
	if preKind == "keepalive" && p.Plug.NEst != nest0+1 {
		w.Violate(sig("earlier-message-lost"), "the KEEPALIVE preceding the faulty header (%s) did not establish the session", faultDesc)
		return
	}
	if preKind == "open" && p.Plug.NOpen != nopen0+1 {
		w.Violate(sig("earlier-message-lost"), "the OPEN preceding the faulty header (%s) was not processed (OnOpenMessage calls %d)", faultDesc, p.Plug.NOpen-nopen0)
		return
	}
	if positive {
		for _, f := range fs {
			if f.Type == MsgNotification {
				w.Violate("C08/legal-boundary-refused/"+faultDesc, "a legal %s was answered with %s", faultDesc, f.String())
				return
			}
		}
		if c.LocalClosed() {
			w.Violate("C08/legal-boundary-refused/"+faultDesc, "a legal %s made corebgp close the connection", faultDesc)
			return
		}
		s.E.FinishRun()
		return
	}
	var notifs []Frame
	for i, f := range fs {
		if f.Type == MsgNotification {
			notifs = append(notifs, f)
			if i != len(fs)-1 {
				w.Violate(sig("sent-after-notification"), "corebgp wrote %s after its NOTIFICATION", descFrames(fs[i+1:]))
				return
			}
		} else if f.Type != MsgKeepalive {
			w.Violate(sig("unexpected-frame"), "unexpected frame %s in reaction to %s", f.String(), faultDesc)
			return
		}
	}
	kind := []string{"", "marker", "length", "type"}[wantSub]
	if len(notifs) != 1 {
		w.Violate(sig("no-notification-"+kind), "fault %s: want exactly one NOTIFICATION(1,%d), corebgp wrote %s (closed=%v)", faultDesc, wantSub, descFrames(fs), c.LocalClosed())
		return
	}
	nb := notifs[0].Body
	if nb[0] != 1 || nb[1] != wantSub {
		w.Violate(sig("wrong-code-"+kind), "fault %s: want NOTIFICATION(1,%d), got %s", faultDesc, wantSub, notifs[0].String())
		return
	}
	if wantData != nil && !bytes.Equal(nb[2:], wantData) {
		w.Violate(sig("bad-type-data"), "fault %s: want data %x (the offending type octet), got %s", faultDesc, wantData, notifs[0].String())
		return
	}
	if !c.LocalClosed() {
		w.Violate(sig("not-closed"), "fault %s: connection still open after the NOTIFICATION", faultDesc)
		return
	}
	_ = nclose0
	s.E.FinishRun()
}

func lenClass(n int) string {
	switch {
	case n <= 3:
		return fmt.Sprint(n)
	case n == 255, n == 1000, n == 4075:
		return fmt.Sprint(n)
	}
	return "other"
}

func lenFaultClass(l int) string {
	switch {
	case l == 0, l == 1, l == 18, l == 4097, l == 4098, l == 65535:
		return fmt.Sprint(l)
	case l < 19:
		return "2..17"
	}
	return "4099..65534"
}
