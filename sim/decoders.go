package sim

import (
	"net/netip"

	"github.com/jwhited/corebgp"
)

// A plugin-side UPDATE handler that runs every exported decoder of corebgp on
// the body it is given, the way the repository's own example does. Used by C05
// for crash freedom only (the decoders' results are C16-C19's business).

type decSink struct{ n int }

func newDecoders() (plain, addPath *corebgp.UpdateDecoder[*decSink]) {
	mk := func(ap bool) corebgp.PathAttrsDecodeFn[*decSink] {
		reach := corebgp.NewMPReachNLRIDecodeFn[*decSink](func(m *decSink, afi uint16, safi uint8, nh, nlri []byte) error {
			if _, err := corebgp.DecodeMPReachIPv6NextHops(nh); err != nil {
				return err
			}
			if ap {
				_, err := corebgp.DecodeMPIPv6AddPathPrefixes(nlri)
				return err
			}
			_, err := corebgp.DecodeMPIPv6Prefixes(nlri)
			return err
		})
		unreach := corebgp.NewMPUnreachNLRIDecodeFn[*decSink](func(m *decSink, afi uint16, safi uint8, wd []byte) error {
			if ap {
				_, err := corebgp.DecodeMPIPv6AddPathPrefixes(wd)
				return err
			}
			_, err := corebgp.DecodeMPIPv6Prefixes(wd)
			return err
		})
		return func(m *decSink, code uint8, flags corebgp.PathAttrFlags, b []byte) error {
			m.n++
			_ = flags.Optional()
			_ = flags.Transitive()
			_ = flags.Partial()
			_ = flags.ExtendedLen()
			switch code {
			case 1:
				var a corebgp.OriginPathAttr
				return a.Decode(flags, b)
			case 2:
				var a corebgp.ASPathAttr
				return a.Decode(flags, b)
			case 3:
				var a corebgp.NextHopPathAttr
				return a.Decode(flags, b)
			case 4:
				var a corebgp.MEDPathAttr
				return a.Decode(flags, b)
			case 5:
				var a corebgp.LocalPrefPathAttr
				return a.Decode(flags, b)
			case 6:
				var a corebgp.AtomicAggregatePathAttr
				return a.Decode(flags, b)
			case 7:
				var a corebgp.AggregatorPathAttr
				return a.Decode(flags, b)
			case 8:
				var a corebgp.CommunitiesPathAttr
				return a.Decode(flags, b)
			case 9:
				var a corebgp.OriginatorIDPathAttr
				return a.Decode(flags, b)
			case 10:
				var a corebgp.ClusterListPathAttr
				return a.Decode(flags, b)
			case 14:
				return reach(m, flags, b)
			case 15:
				return unreach(m, flags, b)
			case 32:
				var a corebgp.LargeCommunitiesPathAttr
				return a.Decode(flags, b)
			}
			return nil
		}
	}
	plain = corebgp.NewUpdateDecoder[*decSink](
		corebgp.NewWithdrawnRoutesDecodeFn[*decSink](func(m *decSink, p []netip.Prefix) error { m.n += len(p); return nil }),
		mk(false),
		corebgp.NewNLRIDecodeFn[*decSink](func(m *decSink, p []netip.Prefix) error { m.n += len(p); return nil }))
	addPath = corebgp.NewUpdateDecoder[*decSink](
		corebgp.NewWithdrawnAddPathRoutesDecodeFn[*decSink](func(m *decSink, p []corebgp.AddPathPrefix) error { m.n += len(p); return nil }),
		mk(true),
		corebgp.NewNLRIAddPathDecodeFn[*decSink](func(m *decSink, p []corebgp.AddPathPrefix) error { m.n += len(p); return nil }))
	return
}

// decodeAll runs both decoders and the error classifier on body; it returns
// the notification a careful plugin would send (nil: keep the session).
func decodeAll(plain, addPath *corebgp.UpdateDecoder[*decSink], body []byte) *corebgp.Notification {
	e1 := plain.Decode(&decSink{}, body)
	e2 := addPath.Decode(&decSink{}, body)
	corebgp.UpdateNotificationFromErr(e2)
	_, _ = corebgp.DecodeAddPathTuples(body)
	return corebgp.UpdateNotificationFromErr(e1)
}

// ---- grammar for hostile UPDATE bodies ----

func genPrefixes(w *World, v6 bool, addPath bool, max int) []byte {
	var b []byte
	for i, n := 0, w.Draw(max+1, "npfx"); i < n; i++ {
		if addPath {
			b = append(b, w.RandBytes(4, "pathid")...)
		}
		bits := 32
		if v6 {
			bits = 128
		}
		l := Pick(w, "pfxlen", 0, 8, 24, bits, bits+1, 255, -1)
		if l < 0 {
			l = w.Draw(bits+1, "pfxlenr")
		}
		b = append(b, byte(l))
		nb := (l + 7) / 8
		if w.Chance(1, 12, "pfxtrunc") && nb > 0 {
			nb--
		}
		b = append(b, w.RandBytes(nb, "pfx")...)
	}
	return b
}

func genAttr(w *World) []byte {
	code := Pick(w, "attrcode", byte(1), 2, 3, 4, 5, 6, 7, 8, 9, 10, 14, 15, 32, 16, 0, 255)
	var val []byte
	switch code {
	case 1:
		val = []byte{byte(w.Draw(4, "origin"))}
	case 2:
		for s, ns := 0, w.Draw(3, "nseg"); s < ns; s++ {
			n := w.Draw(5, "seglen")
			val = append(val, Pick(w, "segtype", byte(2), 1, 0, 3), byte(n))
			val = append(val, w.RandBytes(4*n, "asn")...)
		}
	case 3, 9:
		val = w.RandBytes(4, "addr")
	case 4, 5:
		val = w.RandBytes(4, "u32")
	case 6:
		val = nil
	case 7:
		val = w.RandBytes(Pick(w, "agglen", 8, 6), "agg")
	case 8, 10:
		val = w.RandBytes(4*w.Draw(5, "n4"), "set4")
	case 32:
		val = w.RandBytes(12*w.Draw(4, "n12"), "set12")
	case 14:
		nhl := Pick(w, "nhlen", 16, 32, 4, 0, 17, 255)
		val = []byte{0, byte(Pick(w, "afi", 2, 1, 3)), byte(Pick(w, "safi", 1, 2, 128)), byte(nhl)}
		real := nhl
		if w.Chance(1, 6, "nhshort") {
			real = w.Draw(nhl+1, "nhreal")
		}
		val = append(val, w.RandBytes(real, "nh")...)
		val = append(val, 0)
		val = append(val, genPrefixes(w, true, w.Draw(2, "ap") == 1, 4)...)
	case 15:
		val = []byte{0, byte(Pick(w, "afi", 2, 1, 3)), byte(Pick(w, "safi", 1, 2, 128))}
		val = append(val, genPrefixes(w, true, w.Draw(2, "ap") == 1, 4)...)
	default:
		val = w.RandBytes(w.Draw(20, "unkl"), "unk")
	}
	// mutate the value length
	switch w.Draw(12, "valmut") {
	case 1:
		if len(val) > 0 {
			val = val[:w.Draw(len(val), "vtrunc")]
		}
	case 2:
		val = append(val, w.RandBytes(1+w.Draw(6, "vext"), "vextb")...)
	case 3:
		val = w.RandBytes(Pick(w, "vbig", 255, 256, 300, 1000), "vbigb")
	}
	flagsFor := map[byte]byte{1: 0x40, 2: 0x40, 3: 0x40, 4: 0x80, 5: 0x40, 6: 0x40, 7: 0xC0, 8: 0xC0, 9: 0x80, 10: 0x80, 14: 0x80, 15: 0x80, 32: 0xC0}
	flags := flagsFor[code]
	if w.Chance(1, 8, "flagmut") {
		flags = byte(w.Draw(256, "flags"))
	}
	ext := len(val) > 255 || w.Chance(1, 10, "forceext")
	if ext {
		flags |= 0x10
	} else {
		flags &^= 0x10
	}
	out := []byte{flags, code}
	declared := len(val)
	if w.Chance(1, 15, "lenlie") {
		declared += Pick(w, "liedelta", 1, -1, 10, 200)
		if declared < 0 {
			declared = 0
		}
	}
	if ext {
		out = append(out, byte(declared>>8), byte(declared))
	} else {
		out = append(out, byte(declared))
	}
	return append(out, val...)
}

// genUpdateBody builds a (possibly malformed) UPDATE body of at most 4077 bytes.
func genUpdateBody(w *World) []byte {
	if w.Chance(1, 10, "rawupd") {
		return w.RandBytes(Pick(w, "rawupdlen", 0, 1, 3, 4, 5, 23, 100, 4077), "rawupdb")
	}
	ap := w.Draw(2, "addpath") == 1
	wd := genPrefixes(w, false, ap, 4)
	var attrs []byte
	if w.Chance(3, 4, "mandatory") {
		attrs = append(attrs, 0x40, 1, 1, 0)                      // ORIGIN
		attrs = append(attrs, 0x40, 2, 6, 2, 1, 0, 0, 0xfd, 0xea) // AS_PATH
		attrs = append(attrs, 0x40, 3, 4, 192, 0, 2, 1)           // NEXT_HOP
	}
	for i, n := 0, w.Draw(6, "nattr"); i < n; i++ {
		attrs = append(attrs, genAttr(w)...)
	}
	if w.Chance(1, 10, "dupmp") {
		a := genAttr(w)
		attrs = append(append(attrs, a...), a...)
	}
	nlri := genPrefixes(w, false, ap, 4)
	wl, al := len(wd), len(attrs)
	switch w.Draw(14, "lenmut") {
	case 1:
		wl += Pick(w, "wld", 1, -1, 100, 65000)
	case 2:
		al += Pick(w, "ald", 1, -1, 100, 65000)
	case 3:
		wl, al = 65535, 65535
	}
	if wl < 0 {
		wl = 0
	}
	if al < 0 {
		al = 0
	}
	b := []byte{byte(wl >> 8), byte(wl)}
	b = append(b, wd...)
	b = append(b, byte(al>>8), byte(al))
	b = append(b, attrs...)
	b = append(b, nlri...)
	if w.Chance(1, 12, "tailtrunc") && len(b) > 0 {
		b = b[:w.Draw(len(b), "tailat")]
	}
	if len(b) > 4077 {
		b = b[:4077]
	}
	return b
}
