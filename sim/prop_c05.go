package sim

import (
	"fmt"
	"net/netip"
	"time"

	"github.com/jwhited/corebgp"
)

// C05 — no remote input or API sequence can crash or wedge the process.
func init() {
	register(&Property{ID: "C05", Run: runC05,
		Rule: "per run: a victim peer and a well-behaved bystander; on 1-4 successive victim connections (either direction) at a drawn phase (just connected, OpenSent, OpenConfirm, Established) the remote sends hostile payloads: random bytes (1..8000), valid header + random body of every type, grammar-mutated OPENs (incl. hold time 0, long capability lists), grammar-built and mutated UPDATE bodies (extended-length attributes, MP_REACH/UNREACH, add-path, lying length fields), truncated messages followed by FIN, maximum-length messages, NOTIFICATION variants, all in tape-chosen segments; the victim's handler runs every exported decoder on every body; 1-3 API client tasks issue Add/Delete/Get/List in any order; then a fresh peer must establish and Close must return; non-trivial when at least one hostile payload was delivered; distinct = distinct (phase, payload kind, payload hash class, reaction)"})
}

func hostilePayload(w *World, kind int, sp *Speaker, cfg c02cfg) ([]byte, string) {
	switch kind {
	case 0:
		n := Pick(w, "rndlen", 1, 18, 19, 20, 100, 4096, 8000, -1)
		if n < 0 {
			n = w.Range(1, 600, "rndlenr")
		}
		return w.RandBytes(n, "rnd"), fmt.Sprintf("random-%d", n)
	case 1:
		t := byte(w.Range(1, 4, "htype"))
		n := Pick(w, "hbody", 0, 1, 2, 9, 10, 29, 4077, -1)
		if n < 0 {
			n = w.Range(0, 300, "hbodyr")
		}
		return MkFrame(t, w.RandBytes(n, "hb")), fmt.Sprintf("type%d-random-body-%d", t, n)
	case 2:
		b, d := genOpen(w, cfg)
		return MkFrame(MsgOpen, b), "open:" + d
	case 3:
		var out []byte
		for i, n := 0, 1+w.Draw(4, "nupd"); i < n; i++ {
			out = append(out, MkFrame(MsgUpdate, genUpdateBody(w))...)
		}
		return out, "updates"
	case 4:
		m := MkFrame(byte(w.Range(1, 4, "ttype")), w.RandBytes(w.Range(1, 200, "tlen"), "tb"))
		return m[:w.Range(1, len(m)-1, "tcut")], "truncated"
	case 5:
		t := byte(w.Range(1, 4, "mtype"))
		return MkFrame(t, w.RandBytes(4077, "mb")), fmt.Sprintf("maxlen-type%d", t)
	case 6:
		n := Pick(w, "nlen", 0, 1, 2, 3, 4077)
		return MkFrame(MsgNotification, w.RandBytes(n, "nb")), fmt.Sprintf("notification-%d", n)
	default: // a header with one faulty field (the reader's own error paths)
		m := AllOnes()
		l, t := uint16(19), byte(4)
		switch w.Draw(3, "hfault") {
		case 0:
			m[w.Draw(16, "hmi")] = 0
		case 1:
			l = uint16(Pick(w, "hlen", 0, 18, 4097, 65535, 1))
		default:
			t = byte(Pick(w, "htyp", 0, 5, 255))
		}
		return MkRawHeader(m, l, t, nil), fmt.Sprintf("bad-header(len=%d,type=%d)", l, t)
	}
}

func runC05(w *World) {
	w.NoStall = true
	w.MaxSteps = 80000
	e := w.NewEnv("10.0.0.5")
	if e == nil {
		return
	}
	plain, addPath := newDecoders()
	ih, cr := 2*time.Second, 3*time.Second
	// victim
	vPassive := w.Chance(1, 3, "vpassive")
	vLocalHold := Pick(w, "vhold", 9, 0, 3, 90)
	v := e.NewPeer(PeerSpec{RemoteIP: "10.0.1.1", LocalAS: 65001, RemoteAS: 65101, Hold: vLocalHold, IdleHold: ih, ConnectRetry: cr, Passive: vPassive}, "10.0.0.9", Pick(w, "vrhold", uint16(9), 0, 3))
	slowVictim := w.Chance(1, 3, "slow-victim-handler")
	victimBusy, ending := 0, false
	v.Plug.UpdFn = func(pl *Plug, ss *Session, idx int, b []byte) *corebgp.Notification {
		if slowVictim && !ending && w.Chance(1, 3, "slow-now") {
			// a slow application: whatever that does to this peer's own session, the
			// other peers must not notice
			w.Fault("victim-handler-slow")
			victimBusy++
			w.Sleep(time.Duration(w.Range(1000, 20000, "slowms")) * time.Millisecond)
			victimBusy--
		}
		n := decodeAll(plain, addPath, b)
		if n != nil && w.Chance(1, 2, "sendnotif") {
			return n
		}
		return nil
	}
	// bystander
	b := e.NewPeer(PeerSpec{RemoteIP: "10.0.1.2", LocalAS: 65001, RemoteAS: 65102, Hold: 9, IdleHold: ih, ConnectRetry: cr}, "10.0.0.8", 9)
	b.Site.DialPolicy = func(*DialRec) int { return 1 }
	b.Site.OnConn = func(c *Conn) {
		// the bystander's remote sends UPDATEs now and then as well (its plugin's
		// handler runs while the victim's may be busy)
		w.Go("bystander-updates", func() {
			for i := 0; i < 60 && !c.LocalClosed() && !c.RemoteClosed() && !w.Failed(); i++ {
				w.Sleep(time.Duration(w.Range(1500, 6000, "bupdms")) * time.Millisecond)
				if b.Plug.NEst >= 1 && !c.LocalClosed() {
					c.Deliver(MkFrame(MsgUpdate, []byte{0, 0, 0, byte(i)}))
				}
			}
		})
		b.Speaker.Serve(c, nil)
	}
	for _, p := range []*PeerH{v, b} {
		if err := e.Add(p); err != nil {
			w.HarnessError("AddPeer: %v", err)
			return
		}
	}
	e.Serve([]string{"10.0.0.5:179", "10.0.0.6:179", "[::]:179"}[:1+w.Draw(3, "nlisteners")]...)
	if !w.WaitUntil("c05.bystander", time.Minute, func() bool { return b.Plug.NEst == 1 }) {
		w.Violate("C05/bystander/not-established", "the well-behaved bystander peer did not establish")
		return
	}
	// ---- API clients ----
	apiBusy := 0
	nclients := w.Draw(4, "nclients")
	for k := 0; k < nclients; k++ {
		k := k
		apiBusy++
		w.Go("api-client", func() {
			defer func() { apiBusy-- }()
			for i, n := 0, w.Range(2, 8, "nops"); i < n; i++ {
				w.Sleep(time.Duration(w.Range(0, 4000, "apims")) * time.Millisecond)
				ip := netip.MustParseAddr(Pick(w, "apiip", "10.0.2.1", "10.0.2.2", "10.0.1.9"))
				var call *Call
				switch w.Draw(5, "apiop") {
				case 0:
					cfg := corebgp.PeerConfig{RemoteAddress: ip, LocalAS: 65001, RemoteAS: uint32(w.Draw(3, "apias")) * 65200}
					var opts []corebgp.PeerOption
					switch w.Draw(5, "apiopt") {
					case 1:
						opts = append(opts, corebgp.WithHoldTime(uint16(w.Draw(5, "apihold"))))
					case 2:
						opts = append(opts, corebgp.WithPort(Pick(w, "apiport", 179, 0, -1, 65536, 1179)))
					case 3:
						opts = append(opts, corebgp.WithLocalAddress(netip.MustParseAddr(Pick(w, "apila", "10.0.0.5", "fd00::5"))))
					case 4:
						opts = append(opts, corebgp.WithPassive())
					}
					pl := w.NewPlug(fmt.Sprintf("api%d.%d", k, i))
					call = w.CallAsync("AddPeer", func() error { return e.Srv.AddPeer(cfg, pl, opts...) })
				case 1:
					call = w.CallAsync("DeletePeer", func() error { return e.Srv.DeletePeer(ip) })
				case 2:
					call = w.CallAsync("GetPeer", func() error { _, err := e.Srv.GetPeer(ip); return err })
				case 3:
					call = w.CallAsync("ListPeers", func() error { e.Srv.ListPeers(); return nil })
				default:
					call = w.CallAsync("GetPeer", func() error { _, err := e.Srv.GetPeer(netip.Addr{}); return err })
				}
				if !w.WaitUntil("c05.api", 5*time.Second, call.Done) {
					w.Violate("C05/api-call-stuck/"+call.Name, "%s did not return within 5 s of virtual time", call.Name)
					return
				}
			}
		})
	}
	// ---- abuse the victim ----
	cfg := c02cfg{65001, 65101, "10.0.0.5", "10.0.0.9"}
	nconn := 1 + w.Draw(4, "nconn")
	var desc []string
	for k := 0; k < nconn && !w.Failed(); k++ {
		dir := DirOut
		if vPassive || w.Draw(2, "dir") == 1 {
			dir = DirIn
		}
		var c *Conn
		if dir == DirOut {
			v.Site.DialPolicy = nil
			d := v.Site.WaitDial(6 * time.Minute)
			if d == nil {
				w.Probe("victim-no-dial")
				break
			}
			c = d.Accept()
			if c == nil {
				continue
			}
		} else {
			v.Site.DialPolicy = func(*DialRec) int { return 2 }
			c = e.OpenConn(v, DirIn, time.Minute)
		}
		phase := w.Draw(4, "phase")
		reached := true
		if phase > 0 {
			if _, err := e.Advance(v, c, phase-1, time.Minute); err != nil {
				reached = false
				w.Probe("victim-phase-not-reached") // e.g. held down after an earlier protocol error
			}
		}
		if reached {
			kind := w.Draw(8, "kind")
			if phase == 3 && w.Chance(2, 3, "preferupd") {
				kind = 3
			}
			pl, d := hostilePayload(w, kind, v.Speaker, cfg)
			// pipelines: further pieces follow in the same byte stream, so that the
			// reader meets them while the FSM is still reacting to the first
			for np := w.Draw(3, "npieces"); np > 0 && kind != 4; np-- {
				k2 := w.Draw(8, "kind2")
				if k2 == 4 && np > 1 {
					k2 = 7
				}
				p2, d2 := hostilePayload(w, k2, v.Speaker, cfg)
				pl = append(pl, p2...)
				d += " + " + d2
				w.Probe("pipelined-piece")
			}
			desc = append(desc, fmt.Sprintf("%s@%s/%s", d, []string{"connected", "OpenSent", "OpenConfirm", "Established"}[phase], dir))
			w.Probe("payload-kind:" + []string{"random", "typed-random-body", "mutated-open", "grammar-updates", "truncated", "maxlen", "notification", "bad-header"}[kind])
			w.Probe("phase:" + []string{"connected", "OpenSent", "OpenConfirm", "Established"}[phase])
			c.SendSeg(pl)
			w.NonTrivial = true
			if kind == 4 || w.Chance(1, 3, "finafter") {
				c.FIN()
			}
			w.Quiesce()
			w.Rel(fmt.Sprintf("%d|%s|%v|%s", phase, d, c.LocalClosed(), descFrames(c.AllFrames())))
		}
		w.Sleep(time.Duration(w.Range(0, 5000, "pausems"))*time.Millisecond + Pick(w, "holddownwait", 0, 0, 61*time.Second, 125*time.Second, 305*time.Second))
		if !c.RemoteClosed() {
			if w.Draw(2, "endkind") == 0 {
				c.FIN()
			} else {
				c.RST()
			}
		}
		w.Quiesce()
	}
	if w.Failed() {
		return
	}
	w.Sample["hostile_payloads"] = fmt.Sprint(desc)
	w.WaitUntil("c05.apidone", time.Minute, func() bool { return apiBusy == 0 })
	if w.Failed() {
		return
	}
	// (2) the bystander is undisturbed
	if b.Plug.NClose != 0 || b.Plug.NEst != 1 {
		w.Violate("C05/bystander/session-lost", "the bystander's session was disturbed: OnEstablished %d, OnClose %d", b.Plug.NEst, b.Plug.NClose)
		return
	}
	for _, bc := range b.Site.ConnList() {
		var prev time.Duration = -1
		for _, f := range bc.AllFrames() {
			if f.Type != MsgKeepalive {
				continue
			}
			if prev >= 0 && f.At-prev > 3*time.Second+time.Second {
				w.Violate("C05/bystander/keepalives-stalled", "the bystander connection saw %v between two KEEPALIVEs (hold time 9 s)", f.At-prev)
				return
			}
			prev = f.At
		}
		if prev >= 0 && w.Now()-prev > 4*time.Second {
			w.Violate("C05/bystander/keepalives-stalled", "the bystander connection has seen no KEEPALIVE for %v (hold time 9 s)", w.Now()-prev)
			return
		}
	}
	// (3) a fresh peer establishes
	f := e.NewPeer(PeerSpec{RemoteIP: "10.0.1.3", LocalAS: 65001, RemoteAS: 65103, Hold: 9, IdleHold: ih, ConnectRetry: cr}, "10.0.0.7", 9)
	f.Site.DialPolicy = func(*DialRec) int { return 1 }
	f.Site.OnConn = func(c *Conn) { f.Speaker.Serve(c, nil) }
	if err := e.Add(f); err != nil {
		w.Violate("C05/fresh-peer/addpeer-failed", "AddPeer of a fresh valid peer failed after the abuse: %v", err)
		return
	}
	if !w.WaitUntil("c05.fresh", ih+cr+time.Second, func() bool { return f.Plug.NEst == 1 }) {
		w.Violate("C05/fresh-peer/not-established", "a fresh well-behaved peer added after the abuse (%v) was not Established within %v", desc, ih+cr+time.Second)
		return
	}
	// (4) Close returns, nothing is left (Close waits for a callback that is still
	// running, so let a slow one finish first)
	ending = true
	w.WaitUntil("c05.victim-idle", time.Minute, func() bool { return victimBusy == 0 })
	if !e.FinishRun() {
		return
	}
	w.Quiesce()
	if lt := w.LibTasksAlive(); len(lt) > 0 {
		w.Violate("C05/leak/goroutine-blocks-after-close", "%d corebgp goroutine(s) cannot terminate after Close, e.g. %s blocked at %s", len(lt), lt[0].ID, lt[0].Site)
		return
	}
	s2 := w.CallAsync("ServeAgain", func() error { return e.Srv.Serve(nil) })
	c2 := w.CallAsync("CloseAgain", func() error { e.Srv.Close(); return nil })
	if !w.WaitUntil("c05.again", 5*time.Second, func() bool { return s2.Returned && c2.Returned }) {
		w.Violate("C05/api-call-stuck/after-close", "Serve/Close after Close did not return")
	}
}
