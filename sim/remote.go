package sim

import (
	"fmt"
	"net"
	"net/netip"
	"syscall"
	"time"

	"simrt"

	"github.com/jwhited/corebgp"
)

// Speaker is the identity and behaviour of a well-behaved remote BGP speaker.
type Speaker struct {
	w    *World
	AS   uint32
	ID   uint32
	Hold uint16
	Caps []Cap
	// KADiv: keepalives every negotiated/KADiv (default 3). NoKA suppresses them.
	KADiv int
	NoKA  bool
}

// OpenFrame is the speaker's OPEN message.
func (sp *Speaker) OpenFrame() []byte {
	return MkFrame(MsgOpen, GoodOpen(sp.AS, sp.Hold, sp.ID, sp.Caps...))
}

func KeepaliveFrame() []byte { return MkFrame(MsgKeepalive, nil) }

// ExpectOpen waits for corebgp's first frame on c and strictly parses it.
func ExpectOpen(c *Conn, timeout time.Duration) *ParsedOpen {
	f := c.WaitFrame(timeout)
	if f == nil || f.Type != MsgOpen {
		return nil
	}
	o, err := ParseOpenStrict(f.Body)
	if err != nil {
		return nil
	}
	return o
}

// Handshake runs the remote half of the OPEN exchange on c up to and including
// the remote's KEEPALIVE. It reports the OPEN corebgp sent and whether the
// exchange completed.
func (sp *Speaker) Handshake(c *Conn, timeout time.Duration) (*ParsedOpen, bool) {
	o := ExpectOpen(c, timeout)
	if o == nil {
		return nil, false
	}
	c.SendSeg(sp.OpenFrame())
	f := c.WaitFrame(timeout)
	if f == nil || f.Type != MsgKeepalive {
		return o, false
	}
	c.SendSeg(KeepaliveFrame())
	return o, true
}

// Negotiated returns the hold time the remote considers in force.
func (sp *Speaker) Negotiated(o *ParsedOpen) time.Duration {
	h := sp.Hold
	if o != nil && o.Hold < h {
		h = o.Hold
	}
	return time.Duration(h) * time.Second
}

// KeepAlive keeps an established connection alive from the remote side until
// corebgp closes it, a NOTIFICATION arrives, or stop() is true. It reports why
// it ended: "closed", "notification", "stopped".
func (sp *Speaker) KeepAlive(c *Conn, o *ParsedOpen, stop func() bool) string {
	w := sp.w
	hold := sp.Negotiated(o)
	div := sp.KADiv
	if div <= 0 {
		div = 3
	}
	interval := hold / time.Duration(div)
	if hold == 0 || sp.NoKA {
		interval = 0
	}
	next := w.Now() + interval
	for {
		if stop != nil && stop() {
			return "stopped"
		}
		var wait time.Duration
		if interval > 0 {
			wait = next - w.Now()
			if wait <= 0 {
				c.Deliver(KeepaliveFrame())
				next = w.Now() + interval
				continue
			}
		} else {
			wait = time.Hour
		}
		var f *Frame
		w.WaitUntil("speaker", wait, func() bool {
			c.mu.Lock()
			defer c.mu.Unlock()
			return c.Cursor < len(c.Frames) || c.LClosed || (stop != nil && stop())
		})
		f = c.Next()
		if f == nil {
			if c.LocalClosed() {
				c.FIN()
				return "closed"
			}
			continue
		}
		if f.Type == MsgNotification {
			// wait for corebgp to close, then close our side
			w.WaitUntil("speaker.fin", time.Second, c.LocalClosed)
			c.FIN()
			return "notification"
		}
	}
}

// Serve runs Handshake and KeepAlive.
func (sp *Speaker) Serve(c *Conn, stop func() bool) string {
	o, ok := sp.Handshake(c, 10*time.Minute)
	if !ok {
		if c.LocalClosed() {
			c.FIN()
		}
		return "handshake-failed"
	}
	return sp.KeepAlive(c, o, stop)
}

// ---- server-side environment helpers ----

type PeerSpec struct {
	RemoteIP     string
	LocalAS      uint32
	RemoteAS     uint32
	Hold         int // seconds; -1 = leave the default
	IdleHold     time.Duration
	ConnectRetry time.Duration
	Passive      bool
	LocalAddr    string
	Port         int // 0 = leave the default
}

// PeerH is one configured peer with its plugin, remote site and speaker.
type PeerH struct {
	Spec    PeerSpec
	Cfg     corebgp.PeerConfig
	Plug    *Plug
	Site    *Site
	Speaker *Speaker
	Added   bool
	AddSeq  uint64
	AddTask *simrt.Task // the task that called AddPeer, when it ran in its own task
}

type Env struct {
	w        *World
	Srv      *corebgp.Server
	RouterID uint32
	LocalIP  string
	Lis      []*Listener
	Peers    []*PeerH
	ServeC   *Call
	CloseC   *Call
	Controls map[string]int
}

func IPToU32(s string) uint32 {
	a := netip.MustParseAddr(s).As4()
	return uint32(a[0])<<24 | uint32(a[1])<<16 | uint32(a[2])<<8 | uint32(a[3])
}

func U32ToIP(v uint32) string {
	return fmt.Sprintf("%d.%d.%d.%d", byte(v>>24), byte(v>>16), byte(v>>8), byte(v))
}

func (w *World) NewEnv(routerID string) *Env {
	srv, err := corebgp.NewServer(netip.MustParseAddr(routerID))
	if err != nil {
		w.HarnessError("NewServer(%s): %v", routerID, err)
		return nil
	}
	if w.Draw(4, "second-server") == 3 {
		// another Server in the same process, with another router id (never served):
		// nothing of it may show in this one
		if _, err := corebgp.NewServer(netip.MustParseAddr("198.51.100.200")); err == nil {
			w.Probe("second-server-in-the-process")
		}
	}
	return &Env{w: w, Srv: srv, RouterID: IPToU32(routerID), LocalIP: w.Net.LocalIP, Controls: map[string]int{}}
}

// Options translates a PeerSpec into corebgp options.
func (e *Env) Options(s PeerSpec) []corebgp.PeerOption {
	var opts []corebgp.PeerOption
	if s.Hold >= 0 {
		opts = append(opts, corebgp.WithHoldTime(uint16(s.Hold)))
	}
	if s.IdleHold > 0 {
		opts = append(opts, corebgp.WithIdleHoldTime(s.IdleHold))
	}
	if s.ConnectRetry > 0 {
		opts = append(opts, corebgp.WithConnectRetryTime(s.ConnectRetry))
	}
	if s.Passive {
		opts = append(opts, corebgp.WithPassive())
	}
	if s.LocalAddr != "" {
		opts = append(opts, corebgp.WithLocalAddress(netip.MustParseAddr(s.LocalAddr)))
	}
	if s.Port != 0 {
		opts = append(opts, corebgp.WithPort(s.Port))
	}
	ip := s.RemoteIP
	opts = append(opts, corebgp.WithDialerControl(func(network, address string, c syscall.RawConn) error {
		e.Controls[ip]++
		return nil
	}))
	return opts
}

// NewPeer creates the harness side of a peer (plugin, site, speaker) without
// adding it to the server.
func (e *Env) NewPeer(s PeerSpec, remoteID string, remoteHold uint16) *PeerH {
	w := e.w
	p := &PeerH{Spec: s}
	p.Cfg = corebgp.PeerConfig{RemoteAddress: netip.MustParseAddr(s.RemoteIP), LocalAS: s.LocalAS, RemoteAS: s.RemoteAS}
	p.Plug = w.NewPlug(fmt.Sprintf("%s#%d", s.RemoteIP, len(e.Peers)))
	p.Plug.Cfg = p.Cfg
	if site, ok := w.Net.Sites[s.RemoteIP]; ok {
		p.Site = site
	} else {
		p.Site = w.Net.NewSite(s.RemoteIP, s.RemoteIP)
	}
	p.Speaker = &Speaker{w: w, AS: s.RemoteAS, ID: IPToU32(remoteID), Hold: remoteHold}
	e.Peers = append(e.Peers, p)
	return p
}

// Add calls AddPeer in the calling task.
func (e *Env) Add(p *PeerH) error {
	err := e.Srv.AddPeer(p.Cfg, p.Plug, e.Options(p.Spec)...)
	p.AddSeq = e.w.Ev("AddPeer %s passive=%v err=%v", p.Spec.RemoteIP, p.Spec.Passive, err)
	if err == nil {
		p.Added = true
	}
	return err
}

// Serve starts Serve in its own task with one listener per address given.
func (e *Env) Serve(addrs ...string) *Call {
	var ls []*Listener
	for _, a := range addrs {
		ls = append(ls, e.w.Net.NewListener(a))
	}
	e.Lis = append(e.Lis, ls...)
	e.ServeC = e.w.CallAsync("Serve", func() error { return e.Srv.Serve(toNetListeners(ls)) })
	return e.ServeC
}

func toNetListeners(ls []*Listener) []net.Listener {
	out := make([]net.Listener, len(ls))
	for i := range ls {
		out[i] = ls[i]
	}
	return out
}

// Close calls Server.Close in its own task.
func (e *Env) Close() *Call {
	e.CloseC = e.w.CallAsync("Close", func() error { e.Srv.Close(); return nil })
	return e.CloseC
}

// Shutdown closes the server and waits (bounded) for Close and Serve to return.
func (e *Env) Shutdown(timeout time.Duration) bool {
	c := e.Close()
	ok := e.w.WaitUntil("shutdown", timeout, func() bool {
		return c.Returned && (e.ServeC == nil || e.ServeC.Returned)
	})
	if ok {
		for _, p := range e.Peers {
			if p.Added {
				p.Plug.MarkStopped(c.RetSeq)
			}
		}
	}
	return ok
}
