package sim

import (
	"bytes"
	"encoding/binary"
	"fmt"
	"net/netip"
	"sort"
	"strings"
	"time"

	"github.com/jwhited/corebgp"
)

// C02 — OPEN acceptance: exactly the acceptable OPENs are accepted, the others
// are refused with a NOTIFICATION that applies to a fault really present.
func init() {
	register(&Property{ID: "C02", Run: runC02,
		Rule: "per run: one configuration (local/remote AS incl. 4-octet and equal-AS, router ids, hold), one direction, one OPEN body built by a grammar (valid base, 0-3 field/capability/structure mutations, truncation, extension, or random bytes of length 0..4077) delivered in tape-chosen TCP segments to a quiescent OpenSent FSM; non-trivial when OpenSent was reached and the OPEN delivered; distinct = distinct (config class, OPEN body hash class, fault set, reaction)"})
}

type c02cfg struct {
	localAS, remoteAS uint32
	localID, remoteID string
}

// openFaults is the independent acceptability predicate, written from the
// property statement. It returns the set of faults present in body.
func openFaults(body []byte, localAS, remoteAS, localID uint32) (faults map[string]bool, parsed *ParsedOpen) {
	faults = map[string]bool{}
	if len(body) < 10 {
		faults["short"] = true
		return faults, nil
	}
	version := body[0]
	as2 := binary.BigEndian.Uint16(body[1:])
	hold := binary.BigEndian.Uint16(body[3:])
	id := binary.BigEndian.Uint32(body[5:])
	if version != 4 {
		faults["version"] = true
	}
	if hold == 1 || hold == 2 {
		faults["holdtime"] = true
	}
	if id>>28 == 0xE { // 224.0.0.0/4
		faults["id"] = true
	}
	if localAS == remoteAS && id == localID {
		faults["id"] = true
	}
	if as2 != 23456 && uint32(as2) != remoteAS {
		faults["as"] = true
	}
	// structure of the optional parameters
	structOK := true
	if int(body[9]) != len(body)-10 || body[9] == 0 {
		structOK = false
	}
	var caps []Cap
	unknownParam := false
	if structOK {
		p := body[10:]
		for len(p) > 0 {
			if len(p) < 2 || len(p) < 2+int(p[1]) {
				structOK = false
				break
			}
			t, v := p[0], p[2:2+int(p[1])]
			p = p[2+int(p[1]):]
			if t != 2 {
				unknownParam = true
				continue
			}
			if len(v) == 0 {
				structOK = false
				break
			}
			for len(v) > 0 {
				if len(v) < 2 || len(v) < 2+int(v[1]) {
					structOK = false
					break
				}
				caps = append(caps, Cap{v[0], append([]byte(nil), v[2:2+int(v[1])]...)})
				v = v[2+int(v[1]):]
			}
			if !structOK {
				break
			}
		}
	} else {
		// an unknown parameter type may still be visible at the front of an inconsistent list
		if len(body) >= 12 && body[10] != 2 {
			unknownParam = true
		}
	}
	if unknownParam {
		faults["unknown-param"] = true
	}
	if !structOK {
		faults["param-structure"] = true
		return faults, nil
	}
	if unknownParam {
		return faults, nil
	}
	found := false
	for _, c := range caps {
		if c.Code == 65 {
			found = true
			if len(c.Val) != 4 {
				faults["cap65-length"] = true
			} else if binary.BigEndian.Uint32(c.Val) != remoteAS {
				faults["as"] = true
			}
		}
	}
	if !found {
		faults["cap-missing"] = true
		if as2 == 23456 {
			faults["as"] = true // the AS cannot match without the capability
		}
	}
	parsed = &ParsedOpen{Version: version, AS2: as2, Hold: hold, ID: id, Caps: caps}
	return faults, parsed
}

// notifAllowed says whether NOTIFICATION body nb applies to a fault in the set.
func notifAllowed(nb []byte, faults map[string]bool) bool {
	if len(nb) < 2 {
		return false
	}
	code, sub, data := nb[0], nb[1], nb[2:]
	for f := range faults {
		switch f {
		case "short":
			if code == 1 && sub == 2 {
				return true
			}
		case "version":
			if code == 2 && sub == 1 && bytes.Equal(data, []byte{0, 4}) {
				return true
			}
		case "as":
			if code == 2 && sub == 2 {
				return true
			}
		case "id":
			if code == 2 && sub == 3 {
				return true
			}
		case "unknown-param":
			if code == 2 && sub == 4 {
				return true
			}
		case "holdtime":
			if code == 2 && sub == 6 {
				return true
			}
		case "cap-missing":
			// data: the 4-octet-AS capability, encoded as in an OPEN
			if code == 2 && sub == 7 && len(data) == 6 && data[0] == 65 && data[1] == 4 {
				return true
			}
		case "param-structure":
			if code == 2 && sub == 0 {
				return true
			}
		case "cap65-length":
			// a 4-octet-AS capability that is not 4 octets: malformed parameter,
			// and the AS cannot match through it
			if code == 2 && (sub == 0 || sub == 2 || sub == 7) {
				return true
			}
		}
	}
	return false
}

func faultList(f map[string]bool) string {
	var l []string
	for k := range f {
		l = append(l, k)
	}
	sort.Strings(l)
	return strings.Join(l, "+")
}

// genOpen builds an OPEN body from the grammar.
func genOpen(w *World, cfg c02cfg) (body []byte, desc string) {
	remoteAS := cfg.remoteAS
	as2 := uint16(23456)
	if remoteAS <= 65535 {
		as2 = uint16(remoteAS)
	}
	spec := OpenSpec{Version: 4, AS2: as2, Hold: Pick(w, "hold", uint16(90), 0, 3, 65535, 9), ID: IPToU32(cfg.remoteID), OptLenOverride: -1}
	caps := []Cap{FourOctetASCap(remoteAS)}
	var params [][]byte
	var notes []string
	shape := w.Draw(10, "shape")
	if shape == 9 { // arbitrary bytes
		n := Pick(w, "rawlen", 0, 1, 9, 10, 11, 12, 29, 4077, -1)
		if n < 0 {
			n = w.Range(0, 300, "rawlenr")
		}
		return w.RandBytes(n, "raw"), fmt.Sprintf("random bytes len %d", n)
	}
	// extra capabilities
	nx := w.Draw(5, "nextra")
	if w.Chance(1, 12, "manycaps") {
		nx = w.Range(20, 60, "nextramany") // many tiny capabilities
	}
	fill255 := shape < 3 && w.Chance(1, 6, "fill255")
	for i := 0; i < nx; i++ {
		xl := Pick(w, "xlen", 0, 4, 1, 8, 40)
		if nx > 5 {
			xl = w.Draw(2, "xlentiny")
		}
		c := Cap{Code: Pick(w, "xcode", byte(1), 2, 64, 69, 70, 128, 0, 255), Val: w.RandBytes(xl, "xval")}
		if w.Draw(2, "xpos") == 0 {
			caps = append(caps, c)
		} else {
			caps = append([]Cap{c}, caps...)
		}
	}
	nmut := 0
	if shape >= 3 {
		nmut = 1 + w.Draw(3, "nmut")/2
	}
	split := w.Draw(4, "split") == 1
	dropCaps := false
	for m := 0; m < nmut; m++ {
		switch w.Draw(16, "mut") {
		case 0:
			spec.Version = Pick(w, "ver", byte(0), 1, 3, 5, 255)
			notes = append(notes, fmt.Sprintf("version=%d", spec.Version))
		case 1:
			spec.AS2 = Pick(w, "as2", uint16(0), 23456, as2+1, as2-1, 65535, uint16(w.Draw(65536, "as2r")), uint16(remoteAS), uint16(remoteAS), uint16(remoteAS>>16))
			notes = append(notes, fmt.Sprintf("as2=%d", spec.AS2))
		case 2:
			spec.Hold = Pick(w, "holdm", uint16(1), 2, 0, 3, 4)
			notes = append(notes, fmt.Sprintf("hold=%d", spec.Hold))
		case 3:
			spec.ID = Pick(w, "idm", uint32(0), IPToU32(cfg.localID), 0xE0000001, 0xEFFFFFFF, 0xF0000000, 0xDFFFFFFF, IPToU32(cfg.localID)+1)
			notes = append(notes, fmt.Sprintf("id=%s", U32ToIP(spec.ID)))
		case 4: // drop cap 65
			var nc []Cap
			for _, c := range caps {
				if c.Code != 65 {
					nc = append(nc, c)
				}
			}
			caps = nc
			notes = append(notes, "drop-cap65")
		case 5: // duplicate cap 65
			v := remoteAS
			if w.Draw(2, "dupval") == 1 {
				v++
			}
			caps = append(caps, FourOctetASCap(v))
			notes = append(notes, fmt.Sprintf("dup-cap65=%d", v))
		case 6: // wrong length
			for i := range caps {
				if caps[i].Code == 65 {
					caps[i].Val = w.RandBytes(Pick(w, "c65len", 0, 2, 3, 5, 8), "c65")
				}
			}
			notes = append(notes, "cap65-len")
		case 7: // wrong value
			for i := range caps {
				if caps[i].Code == 65 {
					caps[i] = FourOctetASCap(Pick(w, "c65val", remoteAS+1, cfg.localAS, 0, remoteAS^0x10000))
				}
			}
			notes = append(notes, "cap65-val")
		case 8: // unknown optional parameter type
			t := Pick(w, "ptype", byte(1), 3, 0, 255)
			params = append(params, append([]byte{t, 2}, 0xAA, 0xBB))
			notes = append(notes, fmt.Sprintf("param-type-%d", t))
		case 9: // empty capabilities parameter
			params = append(params, []byte{2, 0})
			notes = append(notes, "empty-cap-param")
		case 10: // no parameters at all
			dropCaps = true
			notes = append(notes, "no-params")
		case 11:
			spec.OptLenOverride = -2 // fixed up below: +-1
			notes = append(notes, "optlen-off")
		case 12:
			notes = append(notes, "truncate")
			spec.OptLenOverride = -3
		case 13:
			notes = append(notes, "extend")
			spec.OptLenOverride = -4
		case 14:
			notes = append(notes, "caplen-off")
			spec.OptLenOverride = -5
		case 15:
			notes = append(notes, "paramlen-off")
			spec.OptLenOverride = -6
		}
	}
	if fill255 && nmut == 0 && !split {
		// pad with one unknown capability so that the optional parameters are exactly 255 bytes
		total := 2
		for _, c := range caps {
			total += 2 + len(c.Val)
		}
		if pad := 255 - total - 2; pad >= 0 && pad <= 253 {
			caps = append(caps, Cap{Code: 200, Val: w.RandBytes(pad, "pad255")})
			notes = append(notes, "optional-parameters-exactly-255-bytes")
		}
	}
	var ps []byte
	if !dropCaps && len(caps) > 0 {
		if split && len(caps) > 1 {
			k := 1 + w.Draw(len(caps)-1, "splitat")
			ps = append(ps, CapParam(caps[:k]...)...)
			ps = append(ps, CapParam(caps[k:]...)...)
		} else {
			ps = append(ps, CapParam(caps...)...)
		}
	}
	front := w.Draw(2, "parampos") == 0
	for _, p := range params {
		if front {
			ps = append(append([]byte(nil), p...), ps...)
		} else {
			ps = append(ps, p...)
		}
	}
	mode := spec.OptLenOverride
	spec.OptLenOverride = -1
	spec.Params = ps
	if len(ps) > 255 {
		spec.Params = ps[:255]
	}
	body = spec.Body()
	switch mode {
	case -2:
		body[9] += byte(Pick(w, "optd", 1, 255, 2))
	case -3:
		body = body[:w.Draw(len(body), "trunc")]
	case -4:
		body = append(body, w.RandBytes(w.Range(1, 20, "ext"), "extb")...)
	case -5: // corrupt a capability length octet inside the first type-2 param
		if len(body) > 13 && body[10] == 2 {
			body[13] += byte(Pick(w, "capd", 1, 255, 100))
		}
	case -6:
		if len(body) > 11 {
			body[11] += byte(Pick(w, "pard", 1, 255, 50))
		}
	}
	if len(notes) == 0 {
		notes = append(notes, "valid")
	}
	return body, strings.Join(notes, ",")
}

func runC02(w *World) {
	w.NoStall = true
	dir := Dir(w.Draw(2, "dir"))
	cfg := Pick(w, "cfg",
		c02cfg{65001, 65002, "10.0.0.1", "10.0.0.2"},
		c02cfg{65001, 65001, "10.0.0.1", "10.0.0.2"},
		c02cfg{65001, 70000, "10.0.0.1", "10.0.0.2"},
		c02cfg{70000, 70000, "192.0.2.1", "10.0.0.2"},
		c02cfg{1, 23456, "10.0.0.9", "10.0.0.2"},
		c02cfg{4200000000, 65002, "10.0.0.1", "1.1.1.1"},
		c02cfg{65001, 1, "10.0.0.1", "0.0.0.1"},
		c02cfg{65001, 65535, "10.0.0.1", "223.255.255.255"},
		c02cfg{65001, 65536, "10.0.0.1", "240.0.0.1"},
		c02cfg{65001, 4294967295, "10.0.0.1", "10.0.0.2"},
	)
	refuse := w.Chance(1, 8, "pluginrefuse")
	var refusal *corebgp.Notification
	s := NewStd1(w, Std1Opts{Dir: dir, Passive: dir == DirIn && w.Draw(2, "passive") == 1,
		LocalAS: cfg.localAS, RemoteAS: cfg.remoteAS, LocalID: cfg.localID, RemoteID: cfg.remoteID,
		LocalHold: Pick(w, "lhold", 90, 0, 3, 65535), RemoteHold: 90,
		Configure: func(p *PeerH) {
			if refuse {
				refusal = &corebgp.Notification{Code: Pick(w, "rcode", byte(2), 6, 2), Subcode: byte(w.Draw(12, "rsub")), Data: w.RandBytes(w.NotifDataLen(8, "rdl"), "rd")}
				p.Plug.OpenFn = func(netip.Addr, []corebgp.Capability) *corebgp.Notification { return refusal }
			}
		}})
	if s == nil {
		return
	}
	p := s.P
	if !refuse {
		s.PriorSession(w)
	}
	nopen0, nest0 := p.Plug.NOpen, p.Plug.NEst
	c := s.E.OpenConn(p, dir, time.Minute)
	if c == nil {
		w.HarnessError("C02: no connection")
		return
	}
	if _, err := s.E.Advance(p, c, StOpenSent, time.Minute); err != nil {
		w.Probe("setup-failed")
		s.E.FinishRun()
		return
	}
	body, desc := genOpen(w, cfg)
	faults, ref := openFaults(body, cfg.localAS, cfg.remoteAS, IPToU32(cfg.localID))
	fl := faultList(faults)
	if fl == "" {
		fl = "acceptable"
	}
	w.Probe("faults:" + fl)
	before := c.NFrames()
	c.SendSeg(MkFrame(MsgOpen, body))
	w.Quiesce()
	w.NonTrivial = true
	fs := NewFrames(c, before)
	w.Rel(fmt.Sprintf("%v|%s|%s|%s|%v|%s", cfg, desc, fl, descFrames(fs), refuse, dir))
	w.Sample["open_body"] = fmt.Sprintf("%x", clip(body, 80))
	w.Sample["mutations"] = desc
	w.Sample["faults_present"] = fl
	w.Sample["reaction"] = descFrames(fs)
	w.Sample["config"] = fmt.Sprintf("%+v dir=%s", cfg, dir)
	var notifs []Frame
	for _, f := range fs {
		if f.Type == MsgNotification {
			notifs = append(notifs, f)
		}
	}
	if len(faults) > 0 {
		// must be refused with a single applicable NOTIFICATION, then closed
		if len(fs) != 1 || len(notifs) != 1 {
			w.Violate("C02/unacceptable-open-not-refused/"+fl, "OPEN (%s) has faults {%s}; want one NOTIFICATION then close, corebgp wrote %s (closed=%v)", desc, fl, descFrames(fs), c.LocalClosed())
			return
		}
		if !notifAllowed(notifs[0].Body, faults) {
			w.Violate("C02/notification-not-applicable/"+fl, "OPEN (%s) has faults {%s}; corebgp sent %s which applies to none of them", desc, fl, notifs[0].String())
			return
		}
		if !c.LocalClosed() {
			w.Violate("C02/not-closed/"+fl, "connection still open after refusing the OPEN")
			return
		}
		if p.Plug.NOpen != nopen0 {
			w.Violate("C02/onopen-for-bad-open/"+fl, "OnOpenMessage was invoked for an unacceptable OPEN (%s)", desc)
			return
		}
		// it must never become Established, even if the remote insists
		c.Deliver(KeepaliveFrame())
		w.Quiesce()
		if p.Plug.NEst != nest0 {
			w.Violate("C02/established-after-bad-open/"+fl, "session reported Established after an unacceptable OPEN (%s)", desc)
			return
		}
		s.E.FinishRun()
		return
	}
	// acceptable: OnOpenMessage exactly once, with the sender's id and exactly the capabilities carried
	if p.Plug.NOpen != nopen0+1 {
		w.Violate("C02/acceptable-open-refused/onopen-count", "acceptable OPEN (%s): OnOpenMessage invoked %d times; corebgp wrote %s", desc, p.Plug.NOpen-nopen0, descFrames(fs))
		return
	}
	var ocb *CB
	for _, cb := range p.Plug.CBs {
		if cb.Kind == "open" {
			ocb = cb
		}
	}
	wantRID := netip.AddrFrom4(U32(ref.ID))
	if ocb.RID != wantRID {
		w.Violate("C02/onopen-args/router-id", "OnOpenMessage got router id %v, the OPEN carried %v", ocb.RID, wantRID)
		return
	}
	if len(ocb.Caps) != len(ref.Caps) {
		w.Violate("C02/onopen-args/capabilities", "OnOpenMessage got %d capabilities, the OPEN carried %d", len(ocb.Caps), len(ref.Caps))
		return
	}
	for i := range ref.Caps {
		if ocb.Caps[i].Code != ref.Caps[i].Code || !bytes.Equal(ocb.Caps[i].Val, ref.Caps[i].Val) {
			w.Violate("C02/onopen-args/capabilities", "capability %d passed to OnOpenMessage is (%d,%x), the OPEN carried (%d,%x)", i, ocb.Caps[i].Code, ocb.Caps[i].Val, ref.Caps[i].Code, ref.Caps[i].Val)
			return
		}
	}
	if refuse {
		want := append([]byte{refusal.Code, refusal.Subcode}, refusal.Data...)
		if len(fs) != 1 || len(notifs) != 1 || !bytes.Equal(notifs[0].Body, want) {
			w.Violate("C02/plugin-refusal-not-verbatim", "OnOpenMessage returned NOTIFICATION %x; corebgp wrote %s", want, descFrames(fs))
			return
		}
		if !c.LocalClosed() {
			w.Violate("C02/not-closed/plugin-refusal", "connection still open after the plugin refused the OPEN")
			return
		}
		c.Deliver(KeepaliveFrame())
		w.Quiesce()
		if p.Plug.NEst != nest0 {
			w.Violate("C02/established-after-refusal", "session Established although OnOpenMessage returned a NOTIFICATION")
		}
		s.E.FinishRun()
		return
	}
	if len(fs) != 1 || fs[0].Type != MsgKeepalive || c.LocalClosed() {
		w.Violate("C02/acceptable-open-refused/no-keepalive", "acceptable OPEN (%s): want a KEEPALIVE reply, corebgp wrote %s (closed=%v)", desc, descFrames(fs), c.LocalClosed())
		return
	}
	c.SendSeg(KeepaliveFrame())
	w.Quiesce()
	if p.Plug.NEst != nest0+1 {
		w.Violate("C02/acceptable-open-refused/not-established", "acceptable OPEN (%s) and KEEPALIVE exchanged but OnEstablished count is %d; frames %s", desc, p.Plug.NEst-nest0, descFrames(NewFrames(c, before)))
		return
	}
	s.E.FinishRun()
}
