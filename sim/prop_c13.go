package sim

import (
	"fmt"
	"time"
)

// C13 — only connections from configured peers to the configured address are served.
func init() {
	register(&Property{ID: "C13", Run: runC13,
		Rule: "per run: 1-4 peers over IPv4 and IPv6, with/without WithLocalAddress, active/passive, three local addresses per family (one extends the text of another), specific and wildcard listeners; the target peer is put into a drawn phase (nothing up, outbound attempt pending, outbound OpenSent/OpenConfirm, inbound handshake in progress, Established over inbound/outbound, held down, just deleted); then 1-3 inbound connections with (source, destination, listener) drawn from configured and unconfigured sources x all local addresses are offered at quiescent points; non-trivial when a probe connection was accepted by a listener and its fate observed; distinct = distinct (peer set shape, phase, source class, destination match, admitted?)"})
}

type c13peer struct {
	h      *PeerH
	v6     bool
	phase  string
	inConn *Conn
}

func runC13(w *World) {
	w.NoStall = true
	e := w.NewEnv("10.0.0.5")
	if e == nil {
		return
	}
	// the third address of each family extends the text of the first: admission compares addresses, not strings
	locals4 := []string{"10.0.0.5", "10.0.0.6", "10.0.0.55"}
	locals6 := []string{"fd00::5", "fd00::6", "fd00::55"}
	np := 1 + w.Draw(4, "npeers")
	var peers []*c13peer
	for k := 0; k < np; k++ {
		v6 := w.Chance(1, 3, "v6")
		ip := fmt.Sprintf("10.0.1.%d", k+1)
		if v6 {
			ip = fmt.Sprintf("fd00:1::%d", k+1)
		}
		spec := PeerSpec{RemoteIP: ip, LocalAS: 65001, RemoteAS: uint32(65100 + k), Hold: 90, IdleHold: 20 * time.Second, ConnectRetry: 10 * time.Second,
			Passive: w.Chance(1, 2, "passive"), Port: Pick(w, "port", 0, 0, 1179, 179)} // (the port is where corebgp dials; admission must not look at it)
		if w.Chance(1, 2, "localaddr") {
			if v6 {
				spec.LocalAddr = locals6[w.Draw(len(locals6), "la6")]
			} else {
				spec.LocalAddr = locals4[w.Draw(len(locals4), "la4")]
			}
		}
		h := e.NewPeer(spec, "10.0.0.9", 90)
		h.Plug.Oracle = true
		h.Site.DialPolicy = func(*DialRec) int { return 2 }
		if err := e.Add(h); err != nil {
			w.HarnessError("C13 AddPeer: %v", err)
			return
		}
		peers = append(peers, &c13peer{h: h, v6: v6, phase: "idle"})
	}
	e.Serve("10.0.0.5:179", "0.0.0.0:179", "[::]:179", "[fd00::5]:179")
	tp := peers[w.Draw(len(peers), "target")]
	p := tp.h
	dstFor := func(x *c13peer) string {
		if x.h.Spec.LocalAddr != "" {
			return x.h.Spec.LocalAddr
		}
		if x.v6 {
			return locals6[0]
		}
		return locals4[0]
	}
	lisFor := func(dst string) *Listener {
		// a listener whose address could have produced a connection to dst
		var ok []*Listener
		for _, l := range e.Lis {
			h := l.A.Host()
			v6dst := len(dst) > 4 && dst[:4] == "fd00"
			switch {
			case h == dst, h == "0.0.0.0" && !v6dst, h == "::":
				ok = append(ok, l)
			}
		}
		return ok[w.Draw(len(ok), "listener")]
	}
	dialIn := func(x *c13peer, src, dst string) *Conn {
		return w.Net.DialIn(lisFor(dst), x.h.Site, src, dst)
	}
	// ---- put the target peer into a phase ----
	phases := []string{"idle", "out-pending", "out-opensent", "out-openconfirm", "in-opensent", "in-openconfirm", "established-in", "established-out", "held-down", "deleted", "deleting", "burst"}
	phase := phases[w.Draw(len(phases), "phase")]
	if phase == "burst" && p.Spec.LocalAddr != "" {
		// keep the burst on the configured destination
	}
	if p.Spec.Passive && (phase == "out-pending" || phase == "out-opensent" || phase == "out-openconfirm" || phase == "established-out") {
		phase = "idle"
	}
	bail := func(why string) {
		w.Probe("bail:" + why)
		e.FinishRun()
	}
	if phase != "burst" && w.Chance(1, 4, "prior-session") {
		// the peer has had an inbound session before, and that session is over (not
		// through a protocol error): admission must be what it was for a fresh peer
		c := dialIn(tp, p.Spec.RemoteIP, dstFor(tp))
		if _, err := e.Advance(p, c, StEstablished, time.Minute); err != nil {
			bail("prior-advance")
			return
		}
		switch w.Draw(3, "prior-end") {
		case 0:
			c.FIN()
		case 1:
			c.RST()
		default:
			c.SendSeg(MkNotif(6, byte(w.Draw(9, "prior-cease")), nil))
			w.Quiesce()
			if !c.RemoteClosed() {
				c.FIN()
			}
		}
		w.Quiesce()
		for _, d := range p.Site.DialList() {
			d.Taken = true // attempts made (and refused) so far are not the phase's
		}
		w.Probe("prior-inbound-session-ended")
	}
	switch phase {
	case "out-pending", "out-opensent", "out-openconfirm", "established-out":
		p.Site.DialPolicy = nil
		d := p.Site.WaitDial(time.Minute)
		if d == nil {
			bail("no-dial")
			return
		}
		if phase != "out-pending" {
			c := d.Accept()
			st := map[string]int{"out-opensent": StOpenSent, "out-openconfirm": StOpenConfirm, "established-out": StEstablished}[phase]
			if _, err := e.Advance(p, c, st, time.Minute); err != nil {
				bail("advance")
				return
			}
		}
	case "in-opensent", "in-openconfirm", "established-in":
		c := dialIn(tp, p.Spec.RemoteIP, dstFor(tp))
		st := map[string]int{"in-opensent": StOpenSent, "in-openconfirm": StOpenConfirm, "established-in": StEstablished}[phase]
		if _, err := e.Advance(p, c, st, time.Minute); err != nil {
			bail("advance")
			return
		}
		tp.inConn = c
	case "held-down":
		c := dialIn(tp, p.Spec.RemoteIP, dstFor(tp))
		if _, err := e.Advance(p, c, StOpenSent, time.Minute); err != nil {
			bail("advance")
			return
		}
		c.SendSeg(MkNotif(2, 2, nil)) // a protocol error: 60 s hold-down
		w.Quiesce()
		c.FIN()
		w.Sleep(time.Duration(w.Range(0, 55, "heldfor")) * time.Second)
	case "deleted":
		if err := e.Srv.DeletePeer(p.Cfg.RemoteAddress); err != nil {
			w.HarnessError("DeletePeer: %v", err)
			return
		}
		p.Plug.MarkStopped(w.Seq())
		p.Added = false
	}
	if phase == "burst" {
		// several connections from the same configured peer arrive back to back
		// (no quiescent point between them): exactly one is served, every other
		// one is closed with zero bytes - none may be left dangling
		n := 2 + w.Draw(2, "nburst")
		var cs []*Conn
		for i := 0; i < n; i++ {
			cs = append(cs, dialIn(tp, p.Spec.RemoteIP, dstFor(tp)))
			if w.Draw(2, "burstyield") == 1 {
				w.Yield("c13.burst")
			}
		}
		w.Quiesce()
		w.NonTrivial = true
		w.Probe("phase:burst")
		served, desc := 0, ""
		for _, c := range cs {
			fs := c.AllFrames()
			desc += fmt.Sprintf("%s closed=%v %s; ", c, c.LocalClosed(), descFrames(fs))
			switch {
			case len(fs) == 1 && fs[0].Type == MsgOpen && !c.LocalClosed():
				served++
			case c.OutLen() == 0 && c.LocalClosed():
			default:
				w.Violate("C13/burst/neither-served-nor-closed", "%d connections from one peer arrived back to back; afterwards: %s", n, desc)
				return
			}
		}
		w.Rel(fmt.Sprintf("burst|%d|%d", n, served))
		if served != 1 {
			w.Violate("C13/burst/served-count", "%d connections from one idle configured peer arrived back to back and %d were served (want exactly 1): %s", n, served, desc)
			return
		}
		phase = "in-opensent"
	}
	if phase == "deleting" {
		// DeletePeer races with the arrival of a connection from that peer: whatever
		// the order, once DeletePeer has returned and things settled the connection
		// must be closed, and if anything was written on it, it was an OPEN and
		// then a Cease.
		del := w.CallAsync("DeletePeer", func() error { return e.Srv.DeletePeer(p.Cfg.RemoteAddress) })
		c := dialIn(tp, p.Spec.RemoteIP, dstFor(tp))
		if !w.WaitUntil("c13.del", 10*time.Second, del.Done) {
			w.Probe("deletepeer-stuck-not-judged-here")
			return
		}
		p.Plug.MarkStopped(del.RetSeq)
		p.Added = false
		w.Quiesce()
		w.NonTrivial = true
		w.Probe("phase:deleting")
		w.Rel(fmt.Sprintf("deleting|%v|%s", c.LocalClosed(), descFrames(c.AllFrames())))
		fs := c.AllFrames()
		if !c.LocalClosed() {
			w.Violate("C13/served-after-delete/deleting", "a connection from a peer whose DeletePeer has returned is still open (frames %s)", descFrames(fs))
			return
		}
		// (no Cease is owed when the FSM was stopped between writing its OPEN and
		// having OpenSent approved; see C10)
		for i, f := range fs {
			if (i == 0 && f.Type != MsgOpen) || (f.Type == MsgNotification && !f.IsNotif(6, -1)) || f.Type == MsgUpdate {
				w.Violate("C13/served-after-delete/deleting", "a connection racing with DeletePeer saw %s (want nothing, or OPEN [KEEPALIVE] [Cease])", descFrames(fs))
				return
			}
		}
		c.FIN()
		phase = "deleted"
	}
	w.Quiesce()
	tp.phase = phase
	w.State(phase)
	// ---- probes ----
	nprobe := 1 + w.Draw(3, "nprobes")
	for i := 0; i < nprobe && !w.Failed(); i++ {
		srcClass := Pick(w, "src", "target", "target", "target", "other-peer", "unconfigured", "unconfigured-v6")
		var src string
		var owner *c13peer
		switch srcClass {
		case "target":
			src, owner = p.Spec.RemoteIP, tp
		case "other-peer":
			o := peers[w.Draw(len(peers), "other")]
			src, owner = o.h.Spec.RemoteIP, o
			if o == tp {
				srcClass = "target"
			}
		case "unconfigured":
			src = "10.9.9.9"
		case "unconfigured-v6":
			src = "fd00:9::9"
		}
		v6src := len(src) > 2 && (src[:2] == "fd" || src[:2] == "::")
		var dst string
		if v6src {
			dst = locals6[w.Draw(len(locals6), "dst6")]
		} else {
			dst = locals4[w.Draw(len(locals4), "dst4")]
		}
		// expected admission
		admit := false
		why := "source not configured"
		if owner != nil && owner.h.Added {
			why = ""
			if la := owner.h.Spec.LocalAddr; la != "" && la != dst {
				why = "destination is not the configured local address"
			}
			switch owner.phase {
			case "in-opensent", "in-openconfirm":
				why = "an inbound connection is already in progress"
			case "established-in", "established-out":
				why = "the peer has an Established session"
			case "held-down":
				why = "the peer is held down"
			}
			admit = why == ""
		} else if owner != nil {
			why = "peer was deleted"
		}
		// snapshot
		type snap struct {
			frames int
			closed bool
		}
		before := map[*Conn]snap{}
		for _, c := range w.Net.AllConns() {
			before[c] = snap{c.NFrames(), c.LocalClosed()}
		}
		ncb := 0
		for _, x := range peers {
			ncb += len(x.h.Plug.CBs)
		}
		site := p.Site
		if owner != nil {
			site = owner.h.Site
		}
		c := w.Net.DialIn(lisFor(dst), site, src, dst)
		w.Quiesce()
		w.NonTrivial = true
		cell := fmt.Sprintf("%s|src=%s|dstmatch=%v|admit=%v", phase, srcClass, owner == nil || owner.h.Spec.LocalAddr == "" || owner.h.Spec.LocalAddr == dst, admit)
		w.Probe("phase:" + phase)
		w.Probe("src:" + srcClass)
		w.Rel(fmt.Sprintf("%d|%s|%v|%d", np, cell, c.LocalClosed(), c.OutLen()))
		w.Sample[fmt.Sprintf("probe%d", i)] = fmt.Sprintf("%s: %s -> %s, expected admit=%v (%s); closed=%v bytes=%d", cell, src, dst, admit, why, c.LocalClosed(), c.OutLen())
		if admit {
			fs := c.AllFrames()
			if c.LocalClosed() || len(fs) != 1 || fs[0].Type != MsgOpen {
				w.Violate("C13/admissible-refused/"+phase, "connection %s -> %s from a configured peer in phase %s must be served (OPEN); closed=%v frames %s", src, dst, owner.phase, c.LocalClosed(), descFrames(fs))
				return
			}
			w.Probe("admitted")
			// the connection is now in progress for that peer
			if owner.phase == "idle" || owner.phase == "out-pending" || owner.phase == "out-opensent" || owner.phase == "out-openconfirm" {
				owner.phase = "in-opensent"
			}
			continue
		}
		w.Probe("refused:" + why)
		if c.OutLen() != 0 {
			w.Violate("C13/bytes-on-refused-connection/"+phase, "connection %s -> %s must not be served (%s) but corebgp wrote %d bytes on it: %s", src, dst, why, c.OutLen(), descFrames(c.AllFrames()))
			return
		}
		if !c.LocalClosed() {
			w.Violate("C13/refused-not-closed/"+phase, "connection %s -> %s must not be served (%s) but it was left open", src, dst, why)
			return
		}
		n2 := 0
		for _, x := range peers {
			n2 += len(x.h.Plug.CBs)
		}
		if n2 != ncb {
			w.Violate("C13/callback-on-refused-connection/"+phase, "a refused connection (%s) triggered %d plugin callback(s)", why, n2-ncb)
			return
		}
		for x, sn := range before {
			if x.NFrames() != sn.frames || x.LocalClosed() != sn.closed {
				w.Violate("C13/existing-session-affected/"+phase, "refusing %s -> %s (%s) affected existing connection %s: frames %d->%d closed %v->%v", src, dst, why, x, sn.frames, x.NFrames(), sn.closed, x.LocalClosed())
				return
			}
		}
		c.FIN()
	}
	if w.Failed() {
		return
	}
	e.FinishRun()
}
