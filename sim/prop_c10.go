package sim

import (
	"errors"
	"fmt"
	"strings"
	"time"

	"github.com/jwhited/corebgp"
)

// C10 — shutdown from any state is prompt, complete and leak-free.
// (The data-race clause runs in a separate mode, see race_test.go.)
func init() {
	register(&Property{ID: "C10", Run: runC10,
		Rule: "per run: the chaos workload (1-3 peers, collisions, deviations, churn, writers) and one shutdown action (Server.Close, DeletePeer of one peer, a listener Accept error, two concurrent Close calls, Close before Serve) issued at a point drawn over the whole run: uniformly in virtual time plus a step offset, or a few scheduler steps after an interesting event (dial accepted but not yet handed over, OPEN just written, KEEPALIVE just written, OnEstablished executing, two live connections of one peer); non-trivial when the action hit at least one handed-over connection or a pending dial; distinct = distinct (action, trigger, per-connection phase and fate at the action)"})
}

type c10snap struct {
	c        *Conn
	eligible bool // Cease clause applies
	nframes  int
}

func runC10(w *World) {
	w.NoStall = true
	w.MaxSteps = 60000
	if w.Chance(1, 5, "slow-logger") {
		w.SlowLogger(300)
	}
	action := Pick(w, "action", "close", "deletepeer", "close", "accept-error", "double-close", "close", "deletepeer", "close-before-serve", "close+deletepeer", "close+deletepeer")
	w.Sample["action"] = action
	if action == "close-before-serve" {
		c10BeforeServe(w)
		return
	}
	maxPeers := 3
	if w.Tier == "thorough" {
		maxPeers = 4
	}
	ch := NewChaos(w, ChaosOpts{MaxPeers: maxPeers, Churn: true, Deviations: w.Draw(3, "dev") != 0, AddInTasks: true, OnlyReAdd: action != "close", FreeWriters: true})
	if ch == nil {
		return
	}
	e := ch.E
	dur := time.Duration(w.Range(0, 40000, "durms")) * time.Millisecond
	trigger := Pick(w, "trigger", "time", "dial-accepted", "open-written", "keepalive-written", "in-onestablished", "two-conns", "time", "dial-pending", "inbound-offered")
	w.Sample["trigger"] = trigger
	offset := w.Draw(12, "stepoffset")
	if trigger == "time" {
		offset = w.Draw(300, "stepoffset-time")
		w.Sleep(dur)
	} else {
		cond := func() bool {
			switch trigger {
			case "dial-accepted":
				for _, d := range w.Net.AllDials() {
					d.mu.Lock()
					hit := d.decision == 1 && !d.Returned
					d.mu.Unlock()
					if hit {
						return true
					}
				}
				for _, c := range w.Net.AllConns() {
					if !c.Inbound && c.Handed && c.NWrites == 0 && !c.LClosed {
						return true
					}
				}
			case "dial-pending":
				for _, d := range w.Net.AllDials() {
					if d.Pending() && w.Now()-d.At > 0 {
						return true
					}
				}
			case "open-written":
				for _, c := range w.Net.AllConns() {
					if c.NWrites == 1 && !c.LClosed && c.w.Seq()-c.OpenSeq < 6 {
						return true
					}
				}
			case "keepalive-written":
				for _, c := range w.Net.AllConns() {
					if n := len(c.Frames); n == 2 && c.Frames[1].Type == MsgKeepalive && !c.LClosed && c.w.Seq()-c.Frames[1].Seq < 6 {
						return true
					}
				}
			case "in-onestablished":
				for _, pl := range ch.AllPlugs() {
					if pl.st == plInE {
						return true
					}
				}
			case "inbound-offered":
				for _, c := range w.Net.AllConns() {
					if c.Inbound && !c.LClosed && c.NWrites == 0 && w.Now()-c.CreatedAt < time.Millisecond {
						return true
					}
				}
			case "two-conns":
				for _, cp := range ch.Peers {
					n := 0
					for _, c := range cp.Site.ConnList() {
						if c.Handed && !c.LClosed && c.OpenSeq > 0 {
							n++
						}
					}
					if n >= 2 {
						return true
					}
				}
			}
			return false
		}
		skip := w.Draw(3, "skipfirst") // let the k-th occurrence pass
		for i := 0; i <= skip; i++ {
			if !w.WaitUntil("c10.trigger", dur+time.Second, cond) {
				w.Probe("trigger-not-reached:" + trigger)
				break
			}
			if i < skip {
				w.Yield("c10.skip")
				w.WaitUntil("c10.trigger.clear", dur+time.Second, func() bool { return !cond() })
			}
		}
	}
	if offset > 0 {
		target := w.S.Steps + offset
		w.WaitUntil("c10.offset", time.Second, func() bool { return w.S.Steps >= target })
	}

	// ---------- the action ----------
	var victim *ChaosPeer
	if action == "deletepeer" {
		var present []*ChaosPeer
		for _, cp := range ch.Peers {
			if cp.Present {
				present = append(present, cp)
			}
		}
		if len(present) == 0 {
			action = "close"
		} else {
			victim = present[w.Draw(len(present), "victim")]
		}
	}
	affected := func(c *Conn) bool { return victim == nil || c.Site == victim.Site }
	var snaps []c10snap
	lastQ := w.LastQuiesceSeq
	hit := false
	for _, c := range w.Net.AllConns() {
		if !affected(c) {
			continue
		}
		c.mu.Lock()
		sn := c10snap{c: c, nframes: len(c.Frames)}
		notifSent := false
		for _, f := range c.Frames {
			if f.Type == MsgNotification {
				notifSent = true
			}
		}
		sn.eligible = c.Handed && c.OpenSeq > 0 && !c.Tainted && !c.LClosed && !notifSent && c.Malformed == ""
		if c.Handed && !c.LClosed {
			hit = true
			if !sn.eligible {
				switch {
				case c.OpenSeq == 0:
					w.Probe("cease-clause-skipped:no-open-yet")
				case c.OpenSeq >= lastQ:
					w.Probe("cease-clause-skipped:not-quiescent-since-open")
				case c.Tainted:
					w.Probe("cease-clause-skipped:remote-misbehaved-or-closed")
				case notifSent:
					w.Probe("cease-clause-skipped:notification-already-sent")
				}
			}
			ph := "connected"
			switch {
			case len(c.Frames) >= 2 && c.Frames[1].Type == MsgKeepalive:
				ph = "openconfirm-or-later"
			case c.OpenSeq > 0:
				ph = "opensent"
			}
			w.Probe("conn-phase-at-action:" + ph)
			w.State(action + ":" + ph)
		}
		c.mu.Unlock()
		snaps = append(snaps, sn)
	}
	for _, d := range w.Net.AllDials() {
		if (victim == nil || d.Site == victim.Site) && !d.Returned {
			hit = true
			w.Probe("dial-in-flight-at-action")
			d.mu.Lock()
			if d.decision == 1 {
				w.Probe("dial-accepted-not-returned-at-action")
			}
			d.mu.Unlock()
		}
	}
	for _, c := range w.Net.AllConns() {
		if affected(c) && !c.Inbound && c.Handed && c.NWrites == 0 && !c.LClosed {
			w.Probe("dial-result-not-yet-taken-by-fsm-at-action")
		}
	}
	for _, pl := range ch.AllPlugs() {
		if pl.st != plDown {
			w.Probe("callback-state-at-action:" + plNames[pl.st])
		}
	}
	w.NonTrivial = hit
	var calls []*Call
	var deleted *PeerH
	switch action {
	case "close":
		calls = append(calls, e.Close())
	case "double-close":
		calls = append(calls, e.Close(), w.CallAsync("Close2", func() error { e.Srv.Close(); return nil }))
	case "close+deletepeer":
		// DeletePeer calls racing with the teardown Close performs
		calls = append(calls, e.Close())
		for _, cp := range ch.Peers {
			if cp.Present && w.Draw(2, "alsodelete") == 0 {
				v := cp.Cur
				calls = append(calls, w.CallAsync("DeletePeer", func() error {
					for i, n := 0, w.Draw(40, "deldelay"); i < n; i++ {
						w.Yield("c10.deldelay")
					}
					e.Srv.DeletePeer(v.Cfg.RemoteAddress)
					return nil
				}))
			}
		}
	case "deletepeer":
		v := victim.Cur
		deleted = v
		calls = append(calls, w.CallAsync("DeletePeer", func() error { return e.Srv.DeletePeer(v.Cfg.RemoteAddress) }))
	case "accept-error":
		e.Lis[0].InjectAcceptError(errors.New("injected accept failure"))
	}
	if action != "deletepeer" {
		ch.Ending = true
	}
	invSeq, invAt, slept0 := w.Seq(), w.Now(), w.LogSlept
	returned := func() bool {
		for _, c := range calls {
			if !c.Returned {
				return false
			}
		}
		if action != "deletepeer" && !e.ServeC.Returned {
			return false
		}
		return true
	}
	if !w.WaitUntil("c10.return", 30*time.Second, returned) {
		w.Violate("C10/return/never-"+action, "%s did not return within 30 s of virtual time (trigger %s); alive: %s", action, trigger, w.aliveSummary())
		return
	}
	retSeq, retAt := w.Seq(), w.Now()
	if lag := w.LogSlept - slept0 + w.LogMax; retAt-invAt > time.Second+lag {
		// (lag: how long the user's Logger blocked corebgp goroutines meanwhile)
		w.Violate("C10/return/slow-"+action, "%s needed %v of virtual time to return (the Logger accounts for %v)", action, retAt-invAt, lag)
		return
	}
	// (4) callbacks
	if action == "deletepeer" {
		if calls[0].Err != nil {
			w.HarnessError("DeletePeer: %v", calls[0].Err)
			return
		}
		victim.Present = false
		deleted.Plug.MarkStopped(calls[0].RetSeq)
	} else {
		for _, cp := range ch.Peers {
			for _, p := range cp.Incarnations {
				if !p.Plug.Dead {
					p.Plug.MarkStopped(retSeq)
				}
			}
		}
		switch action {
		case "accept-error":
			if e.ServeC.Err == nil || !strings.Contains(e.ServeC.Err.Error(), "injected accept failure") {
				w.Violate("C10/serve-result/listener-error", "Serve returned %v after the listener failed with 'injected accept failure'", e.ServeC.Err)
				return
			}
		default:
			if !errors.Is(e.ServeC.Err, corebgp.ErrServerClosed) {
				w.Violate("C10/serve-result/close", "Serve returned %v after Close, want ErrServerClosed", e.ServeC.Err)
				return
			}
		}
	}
	if w.Failed() {
		return
	}
	// (2) every connection handed to corebgp is closed
	for _, sn := range snaps {
		c := sn.c
		if !c.Handed || c.LocalClosed() {
			continue
		}
		if action == "deletepeer" && c.Inbound && c.OpenSeq == 0 {
			continue // accepted but possibly not yet attributed to the peer: judged at the end
		}
		w.Violate("C10/connection-left-open/"+action, "%s was handed to corebgp and is still open when %s returned (frames %s)", c, action, descFrames(c.AllFrames()))
		return
	}
	for _, c := range w.Net.AllConns() {
		if affected(c) && c.Handed && !c.LocalClosed() && !(action == "deletepeer" && c.Inbound && c.OpenSeq == 0) {
			w.Violate("C10/connection-left-open/"+action, "%s (handed over during shutdown) is still open when %s returned", c, action)
			return
		}
	}
	// (3) Cease
	for _, sn := range snaps {
		c := sn.c
		fs := c.AllFrames()
		for _, f := range fs[sn.nframes:] {
			if f.Type == MsgNotification && !f.IsNotif(6, -1) && !c.Tainted {
				if f.IsNotif(4, -1) && c10HoldTie(c, f, ch) {
					w.Probe("ties:hold-expiry-vs-shutdown")
					continue
				}
				w.Violate("C10/cease/other-notification-"+action, "during %s corebgp sent %s on %s; only a Cease is expected", action, f.String(), c)
				return
			}
		}
		if !sn.eligible || c.Tainted {
			continue
		}
		w.Probe("cease-clause-applied")
		// the NOTIFICATION sent during the action (UPDATEs of application goroutines that
		// were inside WriteUpdate, or a KEEPALIVE whose timer fired, may still follow it
		// before the connection is closed: "sent first" means before the close)
		li := -1
		for i := sn.nframes; i < len(fs); i++ {
			if fs[i].Type == MsgNotification {
				li = i
			}
		}
		if li >= 0 && li != len(fs)-1 {
			w.Probe("messages-after-the-cease")
		}
		if li < 0 || !fs[li].IsNotif(6, -1) {
			if li >= 0 && fs[li].IsNotif(4, -1) && c10HoldTie(c, fs[li], ch) {
				w.Probe("ties:hold-expiry-vs-shutdown")
				continue
			}
			w.Violate("C10/cease/missing-"+action, "%s had sent its OPEN, neither side had sent a NOTIFICATION or closed, yet %s closed it without sending a Cease: %s", c, action, descFrames(fs))
			return
		}
	}
	// (5) no task left: let everything that can run finish (zero virtual time), then look
	w.Quiesce()
	if w.Now() != retAt {
		w.Probe("settle-moved-clock")
	}
	if action == "deletepeer" {
		// (the incarnation DeletePeer removed: the churn task may have re-added the peer by now)
		if at := deleted.AddTask; at != nil {
			for _, t := range w.LibTasksAlive() {
				if t.IsDescendantOf(at) {
					w.Violate("C10/leak/deletepeer", "task %s (blocked at %s), created for the deleted peer, is still alive after DeletePeer returned", t.ID, t.Site)
					return
				}
			}
			w.Probe("deletepeer-leak-clause-applied")
		}
	} else if lt := w.LibTasksAlive(); len(lt) > 0 {
		w.Violate("C10/leak/"+action, "%d corebgp goroutine(s) still alive after Serve returned, e.g. %s blocked at %s", len(lt), lt[0].ID, lt[0].Site)
		return
	}
	_ = invSeq
	fate := ""
	for _, sn := range snaps {
		fate += fmt.Sprintf("%d:%v:%d;", sn.nframes, sn.eligible, len(sn.c.Frames)-sn.nframes)
	}
	w.Rel(action + "|" + trigger + "|" + fate)
	w.Sample["connections_affected"] = len(snaps)
	w.Sample["fates(frames_before:cease_clause:frames_during)"] = fate

	if action == "deletepeer" {
		// carry on for a while, then close everything
		w.Sleep(time.Duration(w.Range(0, 10000, "afterms")) * time.Millisecond)
		ch.Ending = true
		if !e.Shutdown(30 * time.Second) {
			w.Violate("C10/return/never-close", "Close after DeletePeer did not return; alive: %s", w.aliveSummary())
			return
		}
		for _, cp := range ch.Peers {
			for _, p := range cp.Incarnations {
				if !p.Plug.Dead {
					p.Plug.MarkStopped(e.CloseC.RetSeq)
				}
			}
		}
		w.Quiesce()
		for _, c := range w.Net.AllConns() {
			if c.Handed && !c.LocalClosed() {
				w.Violate("C10/connection-left-open/close", "%s is still open after the final Close", c)
				return
			}
		}
		if lt := w.LibTasksAlive(); len(lt) > 0 {
			w.Violate("C10/leak/close", "%d corebgp goroutine(s) still alive after Serve returned, e.g. %s blocked at %s", len(lt), lt[0].ID, lt[0].Site)
			return
		}
	} else {
		// a later Close returns at once and a later Serve returns ErrServerClosed
		c2 := w.CallAsync("CloseAgain", func() error { e.Srv.Close(); return nil })
		s2 := w.CallAsync("ServeAgain", func() error { return e.Srv.Serve(nil) })
		if !w.WaitUntil("c10.again", 10*time.Second, func() bool { return c2.Returned && s2.Returned }) {
			w.Violate("C10/return/never-second-call", "a second Close/Serve after shutdown did not return")
			return
		}
		if !errors.Is(s2.Err, corebgp.ErrServerClosed) {
			w.Violate("C10/serve-result/after-close", "Serve after shutdown returned %v, want ErrServerClosed", s2.Err)
			return
		}
		nd := len(w.Net.AllDials())
		w.Sleep(2 * time.Minute)
		if len(w.Net.AllDials()) != nd {
			w.Violate("C10/activity-after-shutdown", "corebgp dialled after the server was shut down")
			return
		}
		if w.Chance(1, 4, "restart") {
			// "restart": a fresh Server in the same process (nothing of the old one may
			// linger: no goroutine, no global state) serves the same peer again
			e2 := w.NewEnv("10.0.0.5")
			if e2 == nil {
				return
			}
			cp := ch.Peers[0]
			spec := cp.Spec
			spec.Passive = false
			spec.IdleHold, spec.ConnectRetry = time.Second, 2*time.Second
			p2 := e2.NewPeer(spec, cp.RemoteID, cp.RemoteHold)
			p2.Site.DialPolicy = func(*DialRec) int { return 1 }
			p2.Site.OnConn = func(c *Conn) { p2.Speaker.Serve(c, func() bool { return false }) }
			if err := e2.Add(p2); err != nil {
				w.Violate("C10/restart/addpeer", "AddPeer on a fresh server after shutdown failed: %v", err)
				return
			}
			e2.Serve("10.0.0.5:179")
			if !w.WaitUntil("c10.restart", 4*time.Second, func() bool { return p2.Plug.NEst == 1 }) {
				w.Violate("C10/restart/not-established", "a fresh Server started after the shutdown could not establish a session within 4 s")
				return
			}
			w.Probe("restart-established")
			if !e2.Shutdown(10 * time.Second) {
				w.Violate("C10/return/never-close-after-restart", "Close of the restarted server did not return")
				return
			}
			w.Quiesce()
			if lt := w.LibTasksAlive(); len(lt) > 0 {
				w.Violate("C10/leak/restart", "%d corebgp goroutine(s) alive after the restarted server was closed", len(lt))
				return
			}
		}
	}
}

// c10HoldTie reports whether a Hold Timer Expired NOTIFICATION coincides with a
// real expiry that was due at that very instant (legal either way).
func c10HoldTie(c *Conn, f Frame, ch *Chaos) bool {
	var cp *ChaosPeer
	for _, x := range ch.Peers {
		if x.Site == c.Site {
			cp = x
		}
	}
	if cp == nil || len(c.RecvTimes) == 0 {
		return false
	}
	h := min(cp.Spec.Hold, int(cp.RemoteHold))
	L := c.RecvTimes[len(c.RecvTimes)-1]
	for _, r := range c.RecvTimes {
		if r <= f.At {
			L = r
		}
	}
	due := L + time.Duration(h)*time.Second
	// (the FSM restarts its hold timer when it gets to the message, which a peer manager
	// held up in the user's Logger can delay)
	return h > 0 && f.At >= due && f.At <= due+3*time.Millisecond+ch.w.LogSlept+ch.w.LogMax
}

func c10BeforeServe(w *World) {
	ch := NewChaos(w, ChaosOpts{MaxPeers: 2, NoServe: true})
	if ch == nil {
		return
	}
	e := ch.E
	if w.Chance(1, 2, "close-races-with-serve") {
		// Close and Serve issued at the same moment by two goroutines: whichever gets
		// there first, both return, Serve with ErrServerClosed, and nothing of the
		// server is active once Close has returned
		w.Probe("close-races-with-serve")
		var sc *Call
		w.Go("late-serve", func() {
			for i, n := 0, w.Draw(12, "serve-yields"); i < n; i++ {
				w.Yield("c10.bs.serve")
			}
			sc = e.Serve("10.0.0.5:179")
		})
		for i, n := 0, w.Draw(12, "close-yields"); i < n; i++ {
			w.Yield("c10.bs.close")
		}
		c := e.Close()
		if !w.WaitUntil("c10.bs.both", 30*time.Second, func() bool { return c.Done() && sc != nil && sc.Done() }) {
			w.Violate("C10/return/never-close-racing-serve", "Close and Serve issued together: Close returned=%v, Serve returned=%v after 30 s; alive: %s", c.Done(), sc != nil && sc.Done(), w.aliveSummary())
			return
		}
		if !errors.Is(sc.Err, corebgp.ErrServerClosed) {
			w.Violate("C10/serve-result/close-racing-serve", "Serve racing with Close returned %v, want ErrServerClosed", sc.Err)
			return
		}
		w.Sleep(time.Minute)
		w.NonTrivial = true
		w.Rel(fmt.Sprint("close-races-with-serve", len(w.Net.AllDials()) > 0))
		for _, d := range w.Net.AllDials() {
			if d.Seq > c.RetSeq {
				w.Violate("C10/activity-after-shutdown", "dial attempt %d was made after Close (racing with Serve) had returned", d.ID)
				return
			}
		}
		for _, pl := range ch.AllPlugs() {
			for _, cb := range pl.CBs {
				if cb.Enter > c.RetSeq {
					w.Violate("C10/callbacks/after-close-racing-serve", "plugin callback %s started after Close (racing with Serve) had returned", cb.Kind)
					return
				}
			}
		}
		w.Quiesce()
		if lt := w.LibTasksAlive(); len(lt) > 0 {
			w.Violate("C10/leak/close-racing-serve", "%d corebgp goroutine(s) alive after Close and Serve returned, e.g. %s at %s", len(lt), lt[0].ID, lt[0].Site)
		}
		return
	}
	c := e.Close()
	if !w.WaitUntil("c10.bs", 10*time.Second, c.Done) {
		w.Violate("C10/return/never-close-before-serve", "Close on a server that was never served did not return")
		return
	}
	sc := e.Serve("10.0.0.5:179")
	if !w.WaitUntil("c10.bs2", 10*time.Second, sc.Done) {
		w.Violate("C10/return/never-serve-after-close", "Serve after Close did not return")
		return
	}
	if !errors.Is(sc.Err, corebgp.ErrServerClosed) {
		w.Violate("C10/serve-result/after-close", "Serve after Close returned %v, want ErrServerClosed", sc.Err)
		return
	}
	w.Sleep(time.Minute)
	w.NonTrivial = true
	w.Rel("close-before-serve")
	if n := len(w.Net.AllDials()); n != 0 {
		w.Violate("C10/activity-after-shutdown", "%d dial attempts on a server closed before Serve", n)
		return
	}
	if lt := w.LibTasksAlive(); len(lt) > 0 {
		w.Violate("C10/leak/close-before-serve", "%d corebgp goroutine(s) alive, e.g. %s at %s", len(lt), lt[0].ID, lt[0].Site)
	}
}
