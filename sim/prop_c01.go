package sim

import (
	"fmt"
	"time"
)

// C01 — one Established session per peer; well-formed plugin callback history.
func init() {
	register(&Property{ID: "C01", Run: runC01,
		Rule: "per run: 1-3 peers (active/passive, hold 0/3/9/30/90, drawn idle-hold and connect-retry), remote sites that accept/refuse/stall dials and dial in themselves (collisions), per connection one drawn deviation (FIN, RST, silence, Cease, protocol NOTIFICATION, garbage, wrong message, crash of the site) at a drawn phase, plugin writes, handler NOTIFICATIONs, DeletePeer/AddPeer churn, stall faults, Close at the end; the callback automaton, task attribution and GetCapabilities/OnOpenMessage accounting are checked after every event; non-trivial when at least one session was Established; distinct = distinct abstract callback/connection history"})
}

func runC01(w *World) {
	w.Stalls = true
	w.MaxSteps = 60000
	w.Net.CapsOracle = true
	if w.Chance(1, 4, "slow-logger") {
		w.SlowLogger(800)
	}
	maxPeers := 3
	if w.Tier == "thorough" {
		maxPeers = 4
	}
	ch := NewChaos(w, ChaosOpts{MaxPeers: maxPeers, Churn: true, Deviations: true, FreeWriters: true})
	if ch == nil {
		return
	}
	dur := time.Duration(w.Range(5, 90, "duration")) * time.Second
	if w.Tier == "thorough" && w.Chance(1, 4, "long") {
		dur *= 4
		w.MaxSteps = 150000
	}
	w.Sleep(dur)
	ch.Ending = true
	ok := ch.E.Shutdown(30 * time.Second)
	if !ok {
		w.Probe("close-stuck-not-judged-here")
	}
	nest, nconn := 0, len(w.Net.AllConns())
	hist := ""
	for _, pl := range ch.AllPlugs() {
		nest += pl.NEst
		for _, cb := range pl.CBs {
			hist += cb.Kind[:1]
		}
		hist += "/"
		if ok && (pl.NEst != pl.NClose) {
			w.Violate("C01/callbacks/unmatched-established", "plugin %s: OnEstablished fired %d times, OnClose %d times by the time Close returned", pl.Name, pl.NEst, pl.NClose)
			return
		}
	}
	w.NonTrivial = nest > 0
	w.Rel(hist + fmt.Sprint(nconn))
	w.Sample["peers"] = len(ch.Peers)
	w.Sample["connections"] = nconn
	w.Sample["sessions_established"] = nest
	w.Sample["callback_history"] = hist
	w.Sample["virtual_duration"] = dur.String()
	if nest > 1 {
		w.Probe("multi-session-run")
	}
	for _, c := range w.Net.AllConns() {
		if c.Inbound {
			w.Probe("inbound-connection")
		}
	}
}
