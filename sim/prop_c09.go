package sim

import (
	"fmt"
	"time"
)

// C09 — state-dependent message handling (RFC 4271 8.2.2 / RFC 6608).
// Every run exercises one cell of {OpenSent, OpenConfirm, Established} x
// {OPEN, UPDATE, NOTIFICATION, KEEPALIVE, FIN, RST} x {inbound, outbound}; the
// stimulus is injected at a quiescent point, the reaction is judged at the
// next quiescent point (DESIGN 3.2, 4 C09). Half of the FIN/RST runs end the
// stream inside a message (a truncated frame precedes the close).
func init() {
	register(&Property{ID: "C09", Run: runC09,
		Rule: "one (state, stimulus, direction) cell per run, drawn from the tape, with random NOTIFICATION contents, FIN/RST at a message boundary or inside a truncated message, TCP segmentation and goroutine schedule; a run is non-trivial when the connection really reached the target state and the stimulus was delivered; distinct = distinct (cell, stimulus bytes, reaction frames, callback counts)"})
}

var c09Stims = []string{"OPEN", "UPDATE", "NOTIFICATION", "KEEPALIVE", "FIN", "RST"}

func runC09(w *World) {
	w.NoStall = true
	cell := w.Draw(36, "cell")
	st := cell % 3
	stim := (cell / 3) % 6
	dir := Dir(cell / 18)
	passive := dir == DirIn && w.Draw(2, "passive") == 1
	s := NewStd1(w, Std1Opts{Dir: dir, Passive: passive, LocalHold: 90, RemoteHold: 90, Vary: true})
	if s == nil {
		return
	}
	p := s.P
	p.Plug.Oracle = true
	s.PriorSession(w)
	c := s.E.OpenConn(p, dir, time.Minute)
	if c == nil {
		w.HarnessError("C09: no connection (dir %v)", dir)
		return
	}
	if _, err := s.E.Advance(p, c, st, time.Minute); err != nil {
		// reaching the state is other properties' business; do not judge here
		w.Probe("setup-failed")
		w.Sample["setup_error"] = err.Error()
		s.E.FinishRun()
		return
	}
	cellName := fmt.Sprintf("%s-%s-%s", stNames[st], c09Stims[stim], dir)
	w.Probe("cell:" + cellName)
	w.State(cellName)
	before := c.NFrames()
	nestBefore, ncloseBefore, nupdBefore := p.Plug.NEst, p.Plug.NClose, p.Plug.NUpd
	var sent []byte
	switch stim {
	case 0:
		sent = p.Speaker.OpenFrame()
	case 1:
		sent = MkFrame(MsgUpdate, w.RandBytes(w.Range(0, 60, "updlen"), "upd"))
	case 2:
		var body []byte
		if w.Chance(1, 8, "shortnotif") {
			body = w.RandBytes(w.Range(0, 1, "shortlen"), "notif")
			w.Probe("short-notification-body")
		} else {
			dl := w.Range(0, 50, "datalen")
			if w.Chance(1, 10, "maxnotif") {
				dl = 4075
			}
			body = append([]byte{byte(w.Draw(256, "code")), byte(w.Draw(256, "sub"))}, w.RandBytes(dl, "data")...)
		}
		sent = MkFrame(MsgNotification, body)
	case 3:
		sent = KeepaliveFrame()
	}
	partial := false
	if stim >= 4 && w.Chance(1, 2, "partial") {
		// the stream ends inside a message: a prefix of a well-formed frame with a
		// non-empty body (cut inside the header, right behind it or inside the body)
		// is not a message, so the close that follows is still a plain TCP close
		var fr []byte
		switch w.Draw(3, "partialkind") {
		case 0:
			fr = p.Speaker.OpenFrame()
		case 1:
			fr = MkFrame(MsgUpdate, w.RandBytes(w.Range(1, 60, "pupdlen"), "pupd"))
		default:
			fr = MkFrame(MsgNotification, append([]byte{byte(1 + w.Draw(6, "pcode")), byte(w.Draw(12, "psub"))}, w.RandBytes(w.Range(0, 30, "pdatalen"), "pdata")...))
		}
		cut := w.Range(1, len(fr)-1, "cut")
		if len(fr) > 20 && w.Chance(1, 2, "cutbody") {
			cut = w.Range(19, len(fr)-1, "cutb")
		}
		sent = fr[:cut]
		partial = true
		w.Probe("truncated-message-before-" + c09Stims[stim])
		if cut > 19 {
			w.Probe("stream-ends-inside-body")
		}
		c.SendSeg(sent)
		if w.Chance(1, 2, "partialquiesce") {
			w.Quiesce()
		}
	}
	switch stim {
	case 4:
		c.FIN()
	case 5:
		c.RST()
	default:
		c.SendSeg(sent)
	}
	w.Quiesce()
	w.NonTrivial = true
	fs := NewFrames(c, before)
	w.Rel(fmt.Sprintf("%s|%x|%s|%d,%d,%d", cellName, sent, descFrames(fs), p.Plug.NEst, p.Plug.NClose, p.Plug.NUpd))
	w.Sample["cell"] = cellName
	w.Sample["stimulus"] = fmt.Sprintf("%x", sent)
	w.Sample["reaction"] = descFrames(fs)
	w.Sample["closed_by_corebgp"] = c.LocalClosed()

	sig := func(clause string) string { return "C09/" + clause + "/" + stNames[st] + "-" + c09Stims[stim] }
	progress := (st == StOpenSent && stim == 0) || (st == StOpenConfirm && stim == 3) || (st == StEstablished && (stim == 1 || stim == 3))
	wasUp := st == StEstablished
	switch {
	case progress:
		if c.LocalClosed() {
			w.Violate(sig("legal-message-refused"), "%s in %s is legal progress but corebgp closed the connection; frames %s", c09Stims[stim], stNames[st], descFrames(fs))
			return
		}
		for _, f := range fs {
			if f.Type == MsgNotification {
				w.Violate(sig("legal-message-refused"), "%s in %s is legal progress but corebgp sent %s", c09Stims[stim], stNames[st], f.String())
				return
			}
		}
		switch {
		case st == StOpenSent:
			if len(fs) != 1 || fs[0].Type != MsgKeepalive {
				w.Violate(sig("no-progress"), "a valid OPEN in OpenSent must be answered by one KEEPALIVE; got %s", descFrames(fs))
				return
			}
		case st == StOpenConfirm:
			if p.Plug.NEst != nestBefore+1 {
				w.Violate(sig("no-progress"), "KEEPALIVE in OpenConfirm must establish the session; OnEstablished count %d -> %d", nestBefore, p.Plug.NEst)
				return
			}
		case stim == 1:
			if p.Plug.NUpd != nupdBefore+1 {
				w.Violate(sig("no-progress"), "UPDATE in Established must reach the handler; handler calls %d -> %d", nupdBefore, p.Plug.NUpd)
				return
			}
		}
		if wasUp && p.Plug.NClose != ncloseBefore {
			w.Violate(sig("onclose-count"), "OnClose fired although the session continues")
			return
		}
	case stim <= 3 && stim != 2:
		// illegal message for the state: FSM error, subcode per state, data = type octet
		wantSub := byte(st + 1)
		wantType := []byte{MsgOpen, MsgUpdate, 0, MsgKeepalive}[stim]
		if len(fs) != 1 || fs[0].Type != MsgNotification {
			w.Violate(sig("reaction"), "want exactly one NOTIFICATION(5,%d,[%d]) then close; corebgp wrote %s closed=%v", wantSub, wantType, descFrames(fs), c.LocalClosed())
			return
		}
		b := fs[0].Body
		if b[0] != 5 || b[1] != wantSub {
			w.Violate(sig("reaction-code"), "want NOTIFICATION(5,%d,..); got %s", wantSub, fs[0].String())
			return
		}
		if len(b) != 3 || b[2] != wantType {
			w.Violate(sig("reaction-data"), "want data = the unexpected type octet [%d]; got %s", wantType, fs[0].String())
			return
		}
		if !c.LocalClosed() {
			w.Violate(sig("not-closed"), "connection still open after the FSM error NOTIFICATION")
			return
		}
	default:
		// NOTIFICATION received, FIN or RST: the connection ends, no NOTIFICATION in reply
		for _, f := range fs {
			if f.Type == MsgNotification {
				w.Violate(sig("notification-in-reply"), "corebgp sent %s after the remote's %s", f.String(), c09Stims[stim])
				return
			}
		}
		if !c.LocalClosed() {
			w.Violate(sig("not-closed"), "connection not closed by corebgp after %s", c09Stims[stim])
			return
		}
		if partial && p.Plug.NUpd != nupdBefore {
			w.Violate(sig("truncated-message-delivered"), "the stream ended inside a message (%d of its bytes sent) and the UPDATE handler ran (%d -> %d calls)", len(sent), nupdBefore, p.Plug.NUpd)
			return
		}
	}
	if !progress {
		want := ncloseBefore
		if wasUp {
			want++
		}
		if p.Plug.NClose != want || (wasUp && !p.Plug.IsDown()) {
			w.Violate(sig("onclose-count"), "OnClose count is %d, want %d (session was up: %v; callback state %s)", p.Plug.NClose, want, wasUp, p.Plug.StName())
			return
		}
		if !wasUp && p.Plug.NEst != nestBefore {
			w.Violate(sig("spurious-established"), "OnEstablished fired on a connection that never reached Established")
			return
		}
	}
	s.E.FinishRun()
	if wasUp || (progress && st == StOpenConfirm) {
		if p.Plug.NClose != p.Plug.NEst {
			w.Violate(sig("onclose-count"), "after shutdown OnEstablished fired %d times and OnClose %d times", p.Plug.NEst, p.Plug.NClose)
		}
	}
}
