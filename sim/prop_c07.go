package sim

import (
	"fmt"
	"time"
)

// C07 — connection collision resolution (RFC 4271 6.8) in every arrival order.
func init() {
	register(&Property{ID: "C07", Run: runC07,
		Rule: "per run: identifiers (remote = local-1, local+1, local, random) and AS order both ways, one clause: A (both connections reach OpenConfirm, sequentially or concurrently, either one second), A' (the remote's KEEPALIVE on the first connection races the second connection's OpenConfirm request) or B1-B4 (one connection Established before the other exchanged OPENs), adversarial goroutine schedule inside every reaction window; non-trivial when both connections existed as the clause requires and a resolution was observed; distinct = distinct (clause, dominance, which was second, schedule-dependent outcome, frames per connection)"})
}

func runC07(w *World) {
	w.NoStall = true
	if w.Chance(1, 5, "slow-logger") {
		// the peer manager is held up inside the user's Logger while it arbitrates
		w.SlowLogger(300)
	}
	localID := "10.0.0.5"
	L := IPToU32(localID)
	var R uint32
	switch w.Draw(4, "rid") {
	case 0:
		R = L - 1
	case 1:
		R = L + 1
	case 2:
		R = L
	default:
		R = uint32(w.Range(1<<24, 0xDFFFFFFF, "ridr"))
		if R == L {
			R++
		}
	}
	localAS, remoteAS := uint32(65001), uint32(65002)
	switch w.Draw(3, "asorder") {
	case 1:
		localAS, remoteAS = 65002, 65001
	case 2:
		if R != L {
			localAS, remoteAS = 65001, 65001
		}
	}
	dominant := L > R || (L == R && localAS > remoteAS)
	clause := Pick(w, "clause", "A-seq", "A-conc", "A-race", "A-seq", "B1", "B2", "B3", "B4", "A-conc", "A-race", "A-down", "A-down", "A-late", "A-late")
	s := NewStd1(w, Std1Opts{Dir: DirOut, LocalID: localID, RemoteID: U32ToIP(R), LocalAS: localAS, RemoteAS: remoteAS,
		LocalHold: 90, RemoteHold: 90, IdleHold: 2 * time.Second, Retry: 30 * time.Second,
		Configure: func(p *PeerH) { p.Plug.Oracle = true }})
	if s == nil {
		return
	}
	p := s.P
	e := s.E
	// sometimes the remote had an earlier session under ANOTHER identifier (it was
	// restarted with a new router id) whose dominance is the opposite: nothing
	// learnt from that session may leak into the collision
	if w.Chance(1, 4, "prior-other-id") {
		realID := p.Speaker.ID
		if dominant {
			p.Speaker.ID = L + 7
		} else {
			p.Speaker.ID = L - 3
		}
		if w.Draw(2, "prior-kind") == 0 {
			if s.PriorSession(w) {
				w.Probe("prior-session-under-another-identifier")
			}
		} else if d := p.Site.WaitDial(time.Minute); d != nil {
			// an earlier COLLISION under the other identifier (resolved the other way
			// round), after which both connections go away
			O0 := d.Accept()
			I0 := e.OpenConn(p, DirIn, time.Minute)
			if O0 != nil && ExpectOpen(O0, time.Second) != nil && ExpectOpen(I0, time.Second) != nil {
				w.Quiesce()
				O0.SendSeg(p.Speaker.OpenFrame())
				w.Quiesce()
				I0.SendSeg(p.Speaker.OpenFrame())
				w.Quiesce()
				w.Probe("prior-collision-under-another-identifier")
			}
			for _, c0 := range []*Conn{O0, I0} {
				if c0 != nil && !c0.RemoteClosed() {
					c0.FIN()
				}
			}
			w.Quiesce()
		}
		p.Speaker.ID = realID
		for _, d := range p.Site.DialList() {
			if d.Returned {
				d.Taken = true
			}
		}
	}
	nest0, nclose0 := p.Plug.NEst, p.Plug.NClose
	sample := func(k string, v any) { w.Sample[k] = v }
	sample("clause", clause)
	sample("ids", fmt.Sprintf("local %s AS%d, remote %s AS%d, local dominant=%v", localID, localAS, U32ToIP(R), remoteAS, dominant))
	open := func(c *Conn) bool {
		if ExpectOpen(c, time.Minute) == nil {
			return false
		}
		return true
	}
	bail := func(why string) {
		w.Probe("bail:" + why)
		e.FinishRun()
	}
	sendOpen := func(c *Conn) { c.SendSeg(p.Speaker.OpenFrame()) }
	ceaseLast := func(c *Conn) bool {
		fs := c.AllFrames()
		return len(fs) > 0 && fs[len(fs)-1].IsNotif(6, -1) && c.LocalClosed()
	}
	untouchedSince := func(c *Conn, n int) bool {
		if c.LocalClosed() {
			return false
		}
		for _, f := range NewFrames(c, n) {
			if f.Type != MsgKeepalive {
				return false
			}
		}
		return true
	}
	finish := func(surv *Conn) {
		// the survivor carries the session: an UPDATE on it reaches the handler
		n := p.Plug.NUpd
		surv.SendSeg(MkFrame(MsgUpdate, []byte{0, 0, 0, 7}))
		w.Quiesce()
		if p.Plug.NUpd != n+1 || p.Plug.NEst != nest0+1 || !p.Plug.IsUp() {
			w.Violate("C07/survivor-not-usable/"+clause, "after resolution the surviving connection %s does not carry the session: OnEstablished count %d, callback state %s, handler calls %d->%d", surv, p.Plug.NEst, p.Plug.StName(), n, p.Plug.NUpd)
			return
		}
		e.FinishRun()
	}

	switch clause {
	case "A-seq", "A-conc", "A-race", "A-down", "A-late":
		// open both connections, in a drawn order
		var O, I *Conn
		lateSecond := ""
		if clause == "A-late" {
			// the second connection only comes into being when the first one is
			// already in OpenConfirm (the common order in practice)
			d := p.Site.WaitDial(time.Minute)
			if d == nil {
				bail("no-dial")
				return
			}
			if w.Draw(2, "latewhich") == 0 {
				O = d.Accept()
				if !open(O) {
					bail("no-open-on-O")
					return
				}
				sendOpen(O)
				if f := O.WaitFrame(time.Minute); f == nil || f.Type != MsgKeepalive {
					bail("first-open-refused")
					return
				}
				w.Quiesce()
				I = e.OpenConn(p, DirIn, time.Minute)
				lateSecond = "inbound"
				if !open(I) {
					w.Violate("C07/collision/second-connection-not-admitted/inbound", "the outbound connection was in OpenConfirm (neither Established) when the remote's connection arrived; it must be served so that the collision can be resolved, but it saw %s closed=%v", descFrames(I.AllFrames()), I.LocalClosed())
					return
				}
			} else {
				I = e.OpenConn(p, DirIn, time.Minute)
				if !open(I) {
					bail("no-open-on-I")
					return
				}
				sendOpen(I)
				if f := I.WaitFrame(time.Minute); f == nil || f.Type != MsgKeepalive {
					bail("first-open-refused")
					return
				}
				w.Quiesce()
				O = d.Accept()
				lateSecond = "outbound"
				if O == nil || !open(O) {
					w.Violate("C07/collision/second-connection-not-admitted/outbound", "the inbound connection was in OpenConfirm (neither Established) when corebgp's own connect completed; corebgp must send its OPEN on it so that the collision can be resolved")
					return
				}
			}
			w.Quiesce()
		} else if w.Draw(2, "openorder") == 0 {
			d := p.Site.WaitDial(time.Minute)
			if d == nil {
				bail("no-dial")
				return
			}
			O = d.Accept()
			if !open(O) {
				bail("no-open-on-O")
				return
			}
			I = e.OpenConn(p, DirIn, time.Minute)
			if !open(I) {
				bail("no-open-on-I")
				return
			}
		} else {
			d := p.Site.WaitDial(time.Minute)
			if d == nil {
				bail("no-dial")
				return
			}
			I = e.OpenConn(p, DirIn, time.Minute)
			if !open(I) {
				bail("no-open-on-I")
				return
			}
			O = d.Accept()
			if O == nil || !open(O) {
				bail("no-open-on-O")
				return
			}
		}
		w.Quiesce()
		first, second := O, I
		secondName := "inbound-second"
		if (lateSecond == "" && w.Draw(2, "first") == 1) || lateSecond == "outbound" {
			first, second = I, O
			secondName = "outbound-second"
		}
		if clause == "A-conc" {
			// the order in which the peer manager hears the two requests is decided
			// by the schedule and is not externally observable
			secondName = "concurrent"
		}
		domName := "remote-dominant"
		if dominant {
			domName = "local-dominant"
		}
		loser, surv := O, I
		if dominant {
			loser, surv = I, O
		}
		cell := domName + "," + secondName
		sample("cell", cell)
		switch clause {
		case "A-late":
			sendOpen(second)
			w.Quiesce()
		case "A-seq":
			sendOpen(first)
			if f := first.WaitFrame(time.Minute); f == nil || f.Type != MsgKeepalive {
				bail("first-open-refused")
				return
			}
			w.Quiesce()
			sendOpen(second)
			w.Quiesce()
		case "A-conc":
			w.Go("open-first", func() { sendOpen(first) })
			sendOpen(second)
			w.Quiesce()
		case "A-race":
			sendOpen(first)
			if f := first.WaitFrame(time.Minute); f == nil || f.Type != MsgKeepalive {
				bail("first-open-refused")
				return
			}
			w.Quiesce()
			w.Go("ka-first", func() { first.SendSeg(KeepaliveFrame()) })
			sendOpen(second)
			w.Quiesce()
		case "A-down":
			// the first connection (OpenConfirm) goes down by itself at the very
			// moment the second one asks for OpenConfirm: the kill request races
			// with the victim's own way down
			sendOpen(first)
			if f := first.WaitFrame(time.Minute); f == nil || f.Type != MsgKeepalive {
				bail("first-open-refused")
				return
			}
			w.Quiesce()
			how := w.Draw(3, "downhow")
			w.Go("down-first", func() {
				switch how {
				case 0:
					first.FIN()
				case 1:
					first.RST()
				default:
					first.SendSeg(MkNotif(6, 0, nil))
				}
			})
			sendOpen(second)
			w.Quiesce()
		}
		w.NonTrivial = true
		w.Probe("cell:" + clause + ":" + cell)
		w.Rel(fmt.Sprintf("%s|%s|O=%s closed=%v|I=%s closed=%v|est=%d|%s", clause, cell, descFrames(O.AllFrames()), O.LocalClosed(), descFrames(I.AllFrames()), I.LocalClosed(), p.Plug.NEst, wireOrder(O, I)))
		sample("outbound_frames", descFrames(O.AllFrames()))
		sample("inbound_frames", descFrames(I.AllFrames()))
		nClosed := 0
		for _, c := range []*Conn{O, I} {
			if c.LocalClosed() {
				nClosed++
			}
		}
		if clause == "A-down" {
			// the first connection is gone either way; if the second one is the
			// connection the dominance rule keeps, it must survive and be usable
			if !first.LocalClosed() {
				w.Violate("C07/down-race/first-not-closed", "%s: the connection that failed was not closed by corebgp", cell)
				return
			}
			if p.Plug.NEst != nest0 {
				w.Violate("C07/collision/established-without-keepalive", "a session was reported Established although the remote sent no KEEPALIVE")
				return
			}
			if second != surv {
				w.Probe("down-race:second-is-dominance-loser")
				e.FinishRun()
				return
			}
			if second.LocalClosed() {
				w.Violate("C07/down-race/survivor-closed", "%s: the second connection is the one the dominance rule keeps, the first one failed by itself, yet corebgp closed the second one too: %s", cell, descFrames(second.AllFrames()))
				return
			}
			second.SendSeg(KeepaliveFrame())
			w.Quiesce()
			if p.Plug.NEst != nest0+1 || !p.Plug.IsUp() {
				w.Violate("C07/down-race/survivor-not-established", "%s: the surviving connection %s did not become Established on the remote's KEEPALIVE (OnEstablished count %d, closed=%v, frames %s)", cell, second, p.Plug.NEst, second.LocalClosed(), descFrames(second.AllFrames()))
				return
			}
			finish(second)
			return
		}
		if clause == "A-race" {
			// safety core: exactly one survives, the other got Cease + close
			if nClosed != 1 {
				w.Violate("C07/race/survivors", "%s: %d of the two connections were closed (want exactly one); O: %s closed=%v, I: %s closed=%v", cell, nClosed, descFrames(O.AllFrames()), O.LocalClosed(), descFrames(I.AllFrames()), I.LocalClosed())
				return
			}
			dead, alive := O, I
			if I.LocalClosed() {
				dead, alive = I, O
			}
			if !ceaseLast(dead) {
				w.Violate("C07/race/no-cease", "%s: the closed connection %s did not receive a Cease NOTIFICATION as its last message: %s", cell, dead, descFrames(dead.AllFrames()))
				return
			}
			if alive == first {
				w.Probe("race:first-survived")
			} else {
				w.Probe("race:second-survived")
			}
			if p.Plug.NEst > nest0+1 {
				w.Violate("C07/race/two-established", "two sessions established")
				return
			}
			if p.Plug.NEst == nest0 {
				alive.SendSeg(KeepaliveFrame())
				w.Quiesce()
			}
			if p.Plug.NEst != nest0+1 || !p.Plug.IsUp() || alive.LocalClosed() {
				w.Violate("C07/race/not-established", "%s: the surviving connection %s did not become Established (OnEstablished count %d, closed=%v, frames %s)", cell, alive, p.Plug.NEst, alive.LocalClosed(), descFrames(alive.AllFrames()))
				return
			}
			finish(alive)
			return
		}
		// clause A: the dominance rule decides, whichever was second
		if p.Plug.NEst != nest0 {
			w.Violate("C07/collision/established-without-keepalive", "a session was reported Established although the remote sent no KEEPALIVE")
			return
		}
		if surv.LocalClosed() || !loser.LocalClosed() {
			w.Violate("C07/collision/wrong-survivor/"+cell, "%s: the connection initiated by the dominant speaker (%s) must survive and %s must be closed; %s closed=%v frames %s; %s closed=%v frames %s", cell, surv, loser, surv, surv.LocalClosed(), descFrames(surv.AllFrames()), loser, loser.LocalClosed(), descFrames(loser.AllFrames()))
			return
		}
		if !ceaseLast(loser) {
			w.Violate("C07/collision/no-cease/"+cell, "the losing connection %s was closed without a Cease NOTIFICATION as its last message: %s", loser, descFrames(loser.AllFrames()))
			return
		}
		sf := surv.AllFrames()
		if len(sf) != 2 || sf[0].Type != MsgOpen || sf[1].Type != MsgKeepalive {
			w.Violate("C07/collision/survivor-touched/"+cell, "the surviving connection must have seen exactly OPEN, KEEPALIVE; got %s", descFrames(sf))
			return
		}
		surv.SendSeg(KeepaliveFrame())
		w.Quiesce()
		if p.Plug.NEst != nest0+1 {
			w.Violate("C07/collision/survivor-not-established/"+cell, "the surviving connection did not become Established on the remote's KEEPALIVE (frames %s, closed=%v)", descFrames(surv.AllFrames()), surv.LocalClosed())
			return
		}
		finish(surv)
	case "B1": // outbound Established, then an inbound connection arrives
		O := e.OpenConn(p, DirOut, time.Minute)
		if O == nil {
			bail("no-dial")
			return
		}
		if _, err := e.Advance(p, O, StEstablished, time.Minute); err != nil {
			bail("advance-failed")
			return
		}
		n := O.NFrames()
		I := e.OpenConn(p, DirIn, time.Minute)
		w.Quiesce()
		w.NonTrivial = true
		w.Probe("cell:B1")
		w.Rel(fmt.Sprintf("B1|%s|%v|%d", descFrames(I.AllFrames()), I.LocalClosed(), I.OutLen()))
		if !I.LocalClosed() {
			w.Violate("C07/established-kept/new-connection-not-closed/B1", "an inbound connection arriving while the outbound one is Established was not closed (frames %s)", descFrames(I.AllFrames()))
			return
		}
		if !untouchedSince(O, n) || p.Plug.NClose != nclose0 {
			w.Violate("C07/established-kept/established-disturbed/B1", "the Established connection was disturbed: %s closed=%v OnClose=%d", descFrames(NewFrames(O, n)), O.LocalClosed(), p.Plug.NClose)
			return
		}
		finish(O)
	case "B2", "B3": // inbound becomes Established while the outbound attempt is pending (B2) or in OpenSent (B3)
		d := p.Site.WaitDial(time.Minute)
		if d == nil {
			bail("no-dial")
			return
		}
		var O *Conn
		if clause == "B3" {
			O = d.Accept()
			if !open(O) {
				bail("no-open-on-O")
				return
			}
			w.Quiesce()
		}
		I := e.OpenConn(p, DirIn, time.Minute)
		if _, err := e.Advance(p, I, StEstablished, time.Minute); err != nil {
			bail("advance-failed")
			return
		}
		w.NonTrivial = true
		w.Probe("cell:" + clause)
		n := I.NFrames()
		if O != nil {
			w.Rel(fmt.Sprintf("%s|%s|%v", clause, descFrames(O.AllFrames()), O.LocalClosed()))
			if !ceaseLast(O) {
				w.Violate("C07/established-kept/other-not-ceased/B3", "the outbound connection (OpenSent, OPEN already sent) must get a Cease and be closed once the inbound one is Established; got %s closed=%v", descFrames(O.AllFrames()), O.LocalClosed())
				return
			}
		} else {
			w.Rel(fmt.Sprintf("B2|%v|%v", d.Pending(), d.Cancelled))
			if c := d.Accept(); c != nil {
				// the attempt was still pending: it must not be used for a second session
				w.Quiesce()
				if c.Handed && !c.LocalClosed() {
					w.Violate("C07/established-kept/second-connection-used/B2", "an outbound connection completed after the inbound one was Established and was kept open: %s", descFrames(c.AllFrames()))
					return
				}
			}
		}
		if !untouchedSince(I, n) || p.Plug.NClose != nclose0 || p.Plug.NEst != nest0+1 {
			w.Violate("C07/established-kept/established-disturbed/"+clause, "the Established inbound connection was disturbed: %s closed=%v OnClose=%d", descFrames(NewFrames(I, n)), I.LocalClosed(), p.Plug.NClose)
			return
		}
		finish(I)
	case "B4": // inbound in OpenSent, then the outbound one becomes Established
		d := p.Site.WaitDial(time.Minute)
		if d == nil {
			bail("no-dial")
			return
		}
		I := e.OpenConn(p, DirIn, time.Minute)
		if !open(I) {
			bail("no-open-on-I")
			return
		}
		w.Quiesce()
		O := d.Accept()
		if O == nil {
			bail("dial-gone")
			return
		}
		if _, err := e.Advance(p, O, StEstablished, time.Minute); err != nil {
			bail("advance-failed")
			return
		}
		w.NonTrivial = true
		w.Probe("cell:B4")
		w.Rel(fmt.Sprintf("B4|%s|%v", descFrames(I.AllFrames()), I.LocalClosed()))
		if !ceaseLast(I) {
			w.Violate("C07/established-kept/other-not-ceased/B4", "the inbound connection (OpenSent, OPEN already sent) must get a Cease and be closed once the outbound one is Established; got %s closed=%v", descFrames(I.AllFrames()), I.LocalClosed())
			return
		}
		if O.LocalClosed() || p.Plug.NClose != nclose0 || p.Plug.NEst != nest0+1 {
			w.Violate("C07/established-kept/established-disturbed/B4", "the Established outbound connection was disturbed")
			return
		}
		finish(O)
	}
}

// wireOrder is the global interleaving of what corebgp did on the two
// connections (frame types and closes in event-sequence order): the
// schedule-dependent part of a collision's observable history.
func wireOrder(cs ...*Conn) string {
	type ev struct {
		seq uint64
		s   string
	}
	var evs []ev
	for i, c := range cs {
		for _, f := range c.AllFrames() {
			evs = append(evs, ev{f.Seq, fmt.Sprintf("%d%c", i, "?OUNK"[f.Type])})
		}
		if c.LocalClosed() {
			evs = append(evs, ev{c.LCloseSeq, fmt.Sprintf("%dx", i)})
		}
	}
	for i := 1; i < len(evs); i++ {
		for j := i; j > 0 && evs[j].seq < evs[j-1].seq; j-- {
			evs[j], evs[j-1] = evs[j-1], evs[j]
		}
	}
	out := ""
	for _, e := range evs {
		out += e.s + " "
	}
	return out
}
