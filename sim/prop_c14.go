package sim

import (
	"bytes"
	"fmt"
	"time"

	"github.com/jwhited/corebgp"
)

// C14 — the OPEN corebgp sends reflects configuration and plugin capabilities.
func init() {
	register(&Property{ID: "C14", Run: runC14,
		Rule: "per run: local AS from {1,23456,65535,65536,2^32-1,random}, hold from {0,3,65535,random}, random IPv4 router id, a fresh plugin capability list per GetCapabilities call (0-40 capabilities, any code incl. 65, value lengths from {0,1,4,254,255,256,300,random}), 1-3 successive connections in either direction; non-trivial when at least one connection was handed to corebgp and its fate observed; distinct = distinct (config, capability list shape, representable?, what reached the wire)"})
}

func runC14(w *World) {
	w.NoStall = true
	dir := Dir(w.Draw(2, "dir"))
	localAS := Pick(w, "las", uint32(65001), 1, 23456, 65535, 65536, 0xFFFFFFFF, 0)
	if localAS == 0 {
		localAS = uint32(w.Range(1, 1<<31, "lasr"))
	}
	hold := Pick(w, "hold", 90, 0, 3, 65535, -1, -2)
	if hold == -1 {
		hold = w.Range(3, 65535, "holdr")
	}
	holdOpt := hold
	if hold == -2 {
		// no WithHoldTime option at all: the documented default applies
		hold, holdOpt = int(corebgp.DefaultHoldTimeSeconds), -1
		w.Probe("default-hold-time")
	}
	rid := U32ToIP(uint32(w.Range(1<<24, 0xDFFFFFFF, "rid")))
	var capLists [][]corebgp.Capability
	big := w.Draw(3, "capprofile") // 0 small lists, 1 medium, 2 near/over the limits
	genCaps := func() []corebgp.Capability {
		var n int
		switch big {
		case 0:
			n = w.Range(0, 4, "ncaps")
		case 1:
			n = w.Range(0, 20, "ncaps")
		default:
			n = w.Range(0, 40, "ncaps")
			if w.Chance(1, 8, "hundred") {
				n = 100
			}
		}
		var l []corebgp.Capability
		for i := 0; i < n; i++ {
			code := byte(w.Draw(256, "capcode"))
			if w.Chance(1, 10, "cap65") {
				code = 65
			}
			var vl int
			switch big {
			case 0:
				vl = Pick(w, "vlen", 0, 1, 4, 8)
			case 1:
				vl = Pick(w, "vlen", 0, 1, 4, 16, 30, -1)
			default:
				vl = Pick(w, "vlen", 0, 1, 4, 254, 255, 256, 300, -1, 4, 0)
			}
			if vl < 0 {
				vl = w.Range(0, 60, "vlenr")
			}
			var v []byte
			if vl > 0 || w.Draw(2, "nilval") == 0 {
				v = w.RandBytes(vl, "capval")
			}
			l = append(l, corebgp.Capability{Code: code, Value: v})
		}
		return l
	}
	s := NewStd1(w, Std1Opts{Dir: dir, Passive: dir == DirIn && w.Draw(2, "passive") == 1, LocalAS: localAS, LocalID: rid,
		LocalHold: holdOpt, RemoteHold: 90, IdleHold: time.Second,
		Configure: func(p *PeerH) {
			var static []corebgp.Capability
			staticMode := w.Chance(1, 4, "static-caps")
			p.Plug.CapsFn = func(call int) []corebgp.Capability {
				if staticMode {
					// a plugin that hands out the very same slice on every call (a
					// package-level table, say) and expects it to stay what it is
					if static == nil {
						static = genCaps()
						if static == nil {
							static = []corebgp.Capability{}
						}
						w.Probe("plugin-returns-the-same-slice-every-call")
					} else if len(capLists) > 0 {
						want := capLists[0]
						same := len(want) == len(static)
						for i := 0; same && i < len(want); i++ {
							same = want[i].Code == static[i].Code && bytes.Equal(want[i].Value, static[i].Value)
						}
						if !same {
							w.Violate("C14/plugin-slice-modified", "the capability slice the plugin returned from GetCapabilities was modified by corebgp (the plugin returns the same slice every time, so later OPENs no longer carry its capabilities)")
						}
					}
					cp := make([]corebgp.Capability, len(static))
					for i, c := range static {
						cp[i] = corebgp.Capability{Code: c.Code, Value: append([]byte(nil), c.Value...)}
					}
					if len(capLists) > 0 {
						cp = capLists[0] // the plugin's table never changes
					}
					capLists = append(capLists, cp)
					return static
				}
				l := genCaps()
				// keep our own deep copy: the plugin's slice belongs to corebgp now
				cp := make([]corebgp.Capability, len(l))
				for i, c := range l {
					cp[i] = corebgp.Capability{Code: c.Code, Value: append([]byte(nil), c.Value...)}
				}
				capLists = append(capLists, cp)
				return l
			}
		}})
	if s == nil {
		return
	}
	p := s.P
	w.Net.CapsOracle = false
	nconn := 1 + w.Draw(3, "nconn")
	if w.Tier == "thorough" {
		nconn = 1 + w.Draw(6, "nconn-thorough")
	}
	for k := 0; k < nconn; k++ {
		c := s.E.OpenConn(p, dir, time.Minute)
		if c == nil {
			if k == 0 {
				w.HarnessError("C14: no connection (dir %v)", dir)
				return
			}
			w.Probe("no-further-connection") // reconnecting is C11's business
			break
		}
		// wait until corebgp wrote something on it or closed it
		w.WaitUntil("c14.first", time.Minute, func() bool { return c.OutLen() > 0 || c.LocalClosed() })
		w.Quiesce()
		if len(capLists) != k+1 {
			w.Violate("C14/capabilities/not-requested-for-this-connection", "connection %d of the peer was handled after %d GetCapabilities call(s) in total: every OPEN must carry what GetCapabilities returns for that connection, not a cached answer", k+1, len(capLists))
			return
		}
		plugCaps := capLists[len(capLists)-1]
		// reference: [65: local AS] + plugin list minus its own code-65 entries
		want := []Cap{FourOctetASCap(localAS)}
		representable := true
		total := 6
		for _, pc := range plugCaps {
			if pc.Code == 65 {
				continue
			}
			if len(pc.Value) > 255 {
				representable = false
			}
			total += 2 + len(pc.Value)
			want = append(want, Cap{pc.Code, pc.Value})
		}
		if total > 253 {
			representable = false
		}
		w.NonTrivial = true
		fs := c.AllFrames()
		w.Rel(fmt.Sprintf("%d|%d|%s|%d caps total %d|%v|out=%d", localAS, hold, dir, len(plugCaps), total, representable, c.OutLen()))
		w.Sample[fmt.Sprintf("conn%d", k)] = fmt.Sprintf("localAS=%d hold=%d id=%s dir=%s plugin caps=%d (encoded %d bytes, representable=%v) -> %d bytes on the wire", localAS, hold, rid, dir, len(plugCaps), total, representable, c.OutLen())
		if representable {
			w.Probe("representable")
		} else {
			w.Probe("unrepresentable")
		}
		c.mu.Lock()
		malformed := c.Malformed
		c.mu.Unlock()
		if !representable {
			// either nothing is written, or what is written is a well-formed OPEN
			if c.OutLen() == 0 {
				w.Probe("unrepresentable:nothing-written")
			} else {
				if malformed != "" || len(fs) == 0 || fs[0].Type != MsgOpen {
					w.Violate("C14/malformed-open-on-wire/framing", "capability list not representable (%d caps, %d bytes); corebgp wrote %d bytes that are not a well-formed message: %s", len(plugCaps), total, c.OutLen(), malformed)
					return
				}
				if _, err := ParseOpenStrict(fs[0].Body); err != nil {
					w.Violate("C14/malformed-open-on-wire/length-octets", "capability list not representable (%d caps, %d bytes encoded, longest value %d); corebgp wrote an OPEN whose length octets disagree with its content: %v", len(plugCaps), total, maxCapLen(plugCaps), err)
					return
				}
				w.Probe("unrepresentable:wellformed-open-written")
			}
		} else {
			if malformed != "" || len(fs) == 0 || fs[0].Type != MsgOpen {
				w.Violate("C14/no-open/first-frame", "representable configuration but the first thing on %s is not an OPEN: %d bytes, frames %s, %s", c, c.OutLen(), descFrames(fs), malformed)
				return
			}
			o, err := ParseOpenStrict(fs[0].Body)
			if err != nil {
				w.Violate("C14/malformed-open-on-wire/length-octets", "OPEN does not parse strictly: %v", err)
				return
			}
			wantAS2 := uint16(23456)
			if localAS <= 65535 {
				wantAS2 = uint16(localAS)
			}
			switch {
			case o.Version != 4:
				w.Violate("C14/field/version", "OPEN version %d", o.Version)
			case o.AS2 != wantAS2:
				w.Violate("C14/field/as", "OPEN 2-octet AS %d, want %d for local AS %d", o.AS2, wantAS2, localAS)
			case int(o.Hold) != hold:
				w.Violate("C14/field/holdtime", "OPEN hold time %d, configured %d s", o.Hold, hold)
			case o.ID != IPToU32(rid):
				w.Violate("C14/field/identifier", "OPEN identifier %s, router id %s", U32ToIP(o.ID), rid)
			case len(o.ParamTypes) != 1 || o.ParamTypes[0] != 2:
				w.Violate("C14/params/shape", "want exactly one optional parameter of type 2; got types %v", o.ParamTypes)
			case len(o.Caps) != len(want):
				w.Violate("C14/capabilities/count", "OPEN carries %d capabilities, want %d (4-octet-AS + plugin list minus its code-65 entries)", len(o.Caps), len(want))
			}
			if w.Failed() {
				return
			}
			for i := range want {
				if o.Caps[i].Code != want[i].Code || !bytes.Equal(o.Caps[i].Val, want[i].Val) {
					w.Violate("C14/capabilities/content", "capability %d on the wire is (%d,%x), want (%d,%x)", i, o.Caps[i].Code, o.Caps[i].Val, want[i].Code, want[i].Val)
					return
				}
			}
		}
		if k+1 < nconn {
			c.RST()
			w.Quiesce()
		}
	}
	s.E.FinishRun()
}

func maxCapLen(l []corebgp.Capability) int {
	m := 0
	for _, c := range l {
		if len(c.Value) > m {
			m = len(c.Value)
		}
	}
	return m
}
