package sim

// The data-race clause of C10 (DESIGN 4 C10). Serialising the execution through
// the scheduler orders every pair of accesses by happens-before, so the race
// detector is blind in simulation mode. This test therefore runs the same
// instrumented build with -race and simrt in pass-through mode (native
// goroutines, selects and locks; GOMAXPROCS > 1) inside a synctest bubble with
// the simulated transport and clock. A race-detector report whose stacks
// contain corebgp frames is the violation. The interleaving is the Go
// scheduler's, not the tape's: this clause is NOT exactly replayable.

import (
	"encoding/json"
	"flag"
	"fmt"
	"math/rand"
	"net/netip"
	"os"
	"sync"
	"sync/atomic"
	"testing"
	"testing/synctest"
	"time"

	"simrt"

	"github.com/jwhited/corebgp"
)

var raceEst, raceConns, raceDials, raceLogLines atomic.Int64

var (
	fRaceFrom = flag.Uint64("racefrom", 0, "first race scenario index")
	fRaceTo   = flag.Uint64("raceto", 0, "one past the last race scenario index")
)

type racePlug struct {
	mu      sync.Mutex
	est     int
	closed  int
	writers []corebgp.UpdateMessageWriter
	upd     int
}

func (p *racePlug) GetCapabilities(corebgp.PeerConfig) []corebgp.Capability {
	return []corebgp.Capability{corebgp.NewMPExtensionsCapability(1, 1)}
}
func (p *racePlug) OnOpenMessage(corebgp.PeerConfig, netip.Addr, []corebgp.Capability) *corebgp.Notification {
	return nil
}
func (p *racePlug) OnEstablished(_ corebgp.PeerConfig, w corebgp.UpdateMessageWriter) corebgp.UpdateMessageHandler {
	p.mu.Lock()
	p.est++
	p.writers = append(p.writers, w)
	p.mu.Unlock()
	w.WriteUpdate([]byte{0, 0, 0, 0})
	return func(corebgp.PeerConfig, []byte) *corebgp.Notification {
		p.mu.Lock()
		p.upd++
		p.mu.Unlock()
		return nil
	}
}
func (p *racePlug) OnClose(corebgp.PeerConfig) {
	p.mu.Lock()
	p.closed++
	p.mu.Unlock()
}
func (p *racePlug) lastWriter() corebgp.UpdateMessageWriter {
	p.mu.Lock()
	defer p.mu.Unlock()
	if len(p.writers) == 0 {
		return nil
	}
	return p.writers[len(p.writers)-1]
}

// raceSpeaker is a polling remote speaker for one connection (native goroutine).
func raceSpeaker(c *Conn, as uint32, id uint32, stop *atomic.Bool, rng *rand.Rand, misbehave int) {
	sentOpen, sentKA := false, false
	lastKA := time.Now()
	born := time.Now()
	life := time.Duration(2+rng.Intn(20)) * time.Second
	for !stop.Load() {
		if c.LocalClosed() {
			c.FIN()
			return
		}
		for f := c.Next(); f != nil; f = c.Next() {
			switch f.Type {
			case MsgOpen:
				if !sentOpen {
					sentOpen = true
					c.Deliver(MkFrame(MsgOpen, GoodOpen(as, 9, id)))
				}
			case MsgKeepalive:
				if !sentKA {
					sentKA = true
					c.Deliver(KeepaliveFrame())
					c.Deliver(MkFrame(MsgUpdate, []byte{0, 0, 0, 0}))
				}
			case MsgNotification:
				c.FIN()
				return
			}
		}
		if sentKA && time.Since(lastKA) > time.Second {
			lastKA = time.Now()
			c.Deliver(KeepaliveFrame())
		}
		if time.Since(born) > life {
			switch misbehave {
			case 1:
				c.FIN()
				return
			case 2:
				c.RST()
				return
			case 3:
				c.Deliver(MkNotif(6, 2, nil))
				misbehave = 0
			case 4:
				c.Deliver(MkNotif(2, 2, nil)) // protocol error: damping
				misbehave = 0
			}
		}
		time.Sleep(time.Duration(5+rng.Intn(40)) * time.Millisecond)
	}
}

func runRaceScenario(t *testing.T, seed uint64) {
	synctest.Test(t, func(t *testing.T) {
		rng := rand.New(rand.NewSource(int64(seed)))
		w := NewWorld("C10", "race", NewTape(seed, 0), false)
		w.T0 = time.Now()
		w.Net = newNet(w)
		simrt.SetPassthroughDial(w.Net.dial)
		defer simrt.SetPassthroughDial(nil)
		// a Logger (set before any corebgp goroutine exists): the arguments of every
		// log line are evaluated and formatted under the race detector too
		corebgp.SetLogger(func(v ...interface{}) {
			_ = fmt.Sprint(v...)
			raceLogLines.Add(1)
		})
		srv, err := corebgp.NewServer(netip.MustParseAddr("10.0.0.5"))
		if err != nil {
			t.Fatal(err)
		}
		var stop atomic.Bool
		var wg sync.WaitGroup
		npeers := 1 + rng.Intn(3)
		type rp struct {
			ip   string
			as   uint32
			id   uint32
			site *Site
			plug *racePlug
		}
		var peers []*rp
		lis := w.Net.NewListener("10.0.0.5:179")
		for k := 0; k < npeers; k++ {
			p := &rp{ip: fmt.Sprintf("10.0.1.%d", k+1), as: uint32(65100 + k), id: IPToU32([]string{"10.0.0.4", "10.0.0.6", "10.0.0.5"}[rng.Intn(3)]), plug: &racePlug{}}
			p.site = w.Net.NewSite(p.ip, p.ip)
			refuse := rng.Intn(4)
			p.site.DialPolicy = func(*DialRec) int {
				if refuse > 0 && time.Since(w.T0)%4 == 0 {
					return 2
				}
				return 1
			}
			peers = append(peers, p)
			opts := []corebgp.PeerOption{corebgp.WithHoldTime(uint16([]int{9, 3, 0}[rng.Intn(3)])), corebgp.WithIdleHoldTime(time.Duration(200+rng.Intn(2000)) * time.Millisecond),
				corebgp.WithConnectRetryTime(time.Duration(500+rng.Intn(3000)) * time.Millisecond)}
			if rng.Intn(4) == 0 {
				opts = append(opts, corebgp.WithPassive())
			}
			if err := srv.AddPeer(corebgp.PeerConfig{RemoteAddress: netip.MustParseAddr(p.ip), LocalAS: 65001, RemoteAS: p.as}, p.plug, opts...); err != nil {
				t.Fatal(err)
			}
		}
		serveDone := make(chan error, 1)
		go func() { serveDone <- srv.Serve(toNetListeners([]*Listener{lis})) }()
		// remote side: serve every connection that appears; dial in now and then
		for _, p := range peers {
			p := p
			prng := rand.New(rand.NewSource(int64(seed)*31 + int64(p.as)))
			wg.Add(1)
			go func() {
				defer wg.Done()
				seen := 0
				nextIn := time.Duration(prng.Intn(3000)) * time.Millisecond
				for !stop.Load() {
					cl := p.site.ConnList()
					for ; seen < len(cl); seen++ {
						c := cl[seen]
						crng := rand.New(rand.NewSource(int64(seed)*131 + int64(c.ID)))
						mis := 0
						if crng.Intn(2) == 0 {
							mis = 1 + crng.Intn(4)
						}
						wg.Add(1)
						go func() { defer wg.Done(); raceSpeaker(c, p.as, p.id, &stop, crng, mis) }()
					}
					if time.Since(w.T0) > nextIn {
						nextIn += time.Duration(500+prng.Intn(6000)) * time.Millisecond
						w.Net.DialIn(lis, p.site, p.ip, "10.0.0.5")
					}
					time.Sleep(20 * time.Millisecond)
				}
			}()
			// a writer goroutine per peer
			wrng := rand.New(rand.NewSource(int64(seed)*577 + int64(p.as)))
			wg.Add(1)
			go func() {
				defer wg.Done()
				prng := wrng
				for !stop.Load() {
					if wr := p.plug.lastWriter(); wr != nil {
						wr.WriteUpdate([]byte{1, 2, 3, 4})
					}
					time.Sleep(time.Duration(100+prng.Intn(900)) * time.Millisecond)
				}
			}()
		}
		// API clients
		for k := 0; k < 2; k++ {
			arng := rand.New(rand.NewSource(int64(seed)*977 + int64(k)))
			wg.Add(1)
			go func() {
				defer wg.Done()
				for !stop.Load() {
					p := peers[arng.Intn(len(peers))]
					ip := netip.MustParseAddr(p.ip)
					switch arng.Intn(6) {
					case 0:
						srv.ListPeers()
					case 1:
						srv.GetPeer(ip)
					case 2:
						if srv.DeletePeer(ip) == nil {
							time.Sleep(time.Duration(arng.Intn(1500)) * time.Millisecond)
							srv.AddPeer(corebgp.PeerConfig{RemoteAddress: ip, LocalAS: 65001, RemoteAS: p.as}, p.plug, corebgp.WithHoldTime(9), corebgp.WithIdleHoldTime(300*time.Millisecond))
						}
					default:
						srv.GetPeer(ip)
					}
					time.Sleep(time.Duration(50+arng.Intn(1500)) * time.Millisecond)
				}
			}()
		}
		time.Sleep(time.Duration(10+rng.Intn(80)) * time.Second)
		// shut down while everything is in flight
		closeDone := make(chan struct{})
		go func() { srv.Close(); close(closeDone) }()
		select {
		case <-closeDone:
		case <-time.After(30 * time.Second):
			t.Errorf("race scenario %d: Close did not return", seed)
		}
		select {
		case <-serveDone:
		case <-time.After(30 * time.Second):
			t.Errorf("race scenario %d: Serve did not return", seed)
		}
		stop.Store(true)
		wg.Wait()
		for _, p := range peers {
			p.plug.mu.Lock()
			raceEst.Add(int64(p.plug.est))
			p.plug.mu.Unlock()
		}
		raceConns.Add(int64(len(w.Net.AllConns())))
		raceDials.Add(int64(len(w.Net.AllDials())))
		// let the last corebgp goroutines (keepalive managers, dialers) finish
		time.Sleep(time.Second)
	})
}

func TestRace(t *testing.T) {
	if *fRaceTo <= *fRaceFrom {
		t.Skip("no race scenarios requested")
	}
	n := 0
	start := time.Now()
	// Real-time watchdog (outside any bubble): a real deadlock inside corebgp with
	// goroutines waiting on a mutex is not a durable block, so the bubble's fake
	// clock stops and the scenario's own timeouts never fire.
	var progress atomic.Int64
	go func() {
		last, since := int64(-1), time.Now()
		for {
			time.Sleep(time.Second)
			if p := progress.Load(); p != last {
				last, since = p, time.Now()
			} else if time.Since(since) > 25*time.Second {
				js, _ := json.Marshal(map[string]any{"scenarios": last, "wall_s": time.Since(start).Seconds(), "hung": true,
					"sessions_established": raceEst.Load(), "connections": raceConns.Load(), "dial_attempts": raceDials.Load(), "log_lines": raceLogLines.Load()})
				if *fOut != "" {
					os.WriteFile(*fOut, js, 0o644)
				}
				fmt.Printf("RACE-HUNG after scenario %d\nRACE-RESULT %s\n", last, js)
				os.Exit(0)
			}
		}
	}()
	crashAt := os.Getenv("VERIF_TEST_RACE_CRASH_AT") // self-test of the driver's restart logic only
	for s := *fRaceFrom; s < *fRaceTo; s++ {
		if *fBudget > 0 && time.Since(start).Seconds() > *fBudget {
			break
		}
		if *fOut != "" && (s-*fRaceFrom)%20 == 0 {
			// progress marker: if the Go runtime itself crashes under -race (seen rarely in
			// runtime.(*timer).maybeRunChan inside a bubble) the driver restarts behind it
			os.WriteFile(*fOut+".progress", []byte(fmt.Sprint(s)), 0o644)
		}
		if crashAt != "" && fmt.Sprint(s) == crashAt {
			fmt.Println("SIGSEGV: segmentation violation\nPC=0x0 m=0 sigcode=1 addr=0x0\n\ngoroutine 1 [running, synctest bubble 1]:\nruntime.(*timer).maybeRunChan(0x0, 0x0)\n(simulated for the driver's self-test)")
			os.Exit(2)
		}
		// a sub-test per scenario: a race report fails the sub-test only
		t.Run(fmt.Sprintf("scenario%d", s), func(t *testing.T) {
			defer func() {
				if r := recover(); r != nil {
					fmt.Printf("RACE-SCENARIO-PANIC seed=%d: %v\n", s, r)
				}
			}()
			runRaceScenario(t, *fSeed*1000003+s)
		})
		n++
		progress.Store(int64(n))
	}
	js, _ := json.Marshal(map[string]any{"scenarios": n, "wall_s": time.Since(start).Seconds(), "sessions_established": raceEst.Load(),
		"connections": raceConns.Load(), "dial_attempts": raceDials.Load(), "log_lines": raceLogLines.Load()})
	if *fOut != "" {
		os.WriteFile(*fOut, js, 0o644)
	}
	fmt.Printf("RACE-RESULT %s\n", js)
}
