package sim

import (
	"bytes"
	"net/netip"
	"time"

	"simrt"

	"github.com/jwhited/corebgp"
)

// CB is one recorded plugin callback.
type CB struct {
	Kind   string // caps, open, est, upd, close
	Enter  uint64
	Exit   uint64
	TEnter time.Duration
	TExit  time.Duration
	Task   string
	Conn   *Conn  // connection owned by the calling task at entry (may be nil)
	Update []byte // copy taken at call time
	orig   []byte // the slice corebgp passed
	RID    netip.Addr
	Caps   []Cap
	Ret    *corebgp.Notification
	Idx    int
}

const (
	plDown = iota
	plInE
	plUp
	plInH
	plInC
)

var plNames = []string{"Down", "InEstablished", "Up", "InHandler", "InClose"}

// Plug implements corebgp.Plugin, records every callback and runs the C01
// callback automaton incrementally.
type Plug struct {
	w    *World
	Name string
	Cfg  corebgp.PeerConfig
	CBs  []*CB

	st       int
	estTask  string
	Oracle   bool // report automaton violations
	Dead     bool // DeletePeer/Close returned for this instance
	DeadSeq  uint64
	NEst     int
	NClose   int
	NUpd     int
	NCaps    int
	NOpen    int
	LastEst  *CB
	EstConn  *Conn
	Writers  []corebgp.UpdateMessageWriter
	Sessions []*Session

	// behaviour
	CapsFn     func(call int) []corebgp.Capability
	OpenFn     func(rid netip.Addr, caps []corebgp.Capability) *corebgp.Notification
	EstFn      func(p *Plug, s *Session)
	UpdFn      func(p *Plug, s *Session, idx int, b []byte) *corebgp.Notification
	CloseFn    func(p *Plug)
	NilHandler bool
}

// Session is one OnEstablished..OnClose interval.
type Session struct {
	N       int
	Writer  corebgp.UpdateMessageWriter
	Conn    *Conn
	Est     *CB
	Close   *CB
	Updates []*CB
}

func (w *World) NewPlug(name string) *Plug {
	return &Plug{w: w, Name: name}
}

func (p *Plug) viol(clause, format string, a ...any) {
	if p.Oracle {
		p.w.Violate(p.w.Prop+"/callbacks/"+clause, "plugin "+p.Name+": "+format, a...)
	}
}

func (p *Plug) enter(kind string) *CB {
	w := p.w
	task := simrt.CurrentID()
	cb := &CB{Kind: kind, Task: task, TEnter: w.Now(), Conn: w.Net.ConnOfTask(task)}
	cb.Enter = w.Ev("plugin %s %s enter task=%s", p.Name, kind, task)
	p.CBs = append(p.CBs, cb)
	if p.Dead {
		p.viol("after-stop", "%s started after DeletePeer/Close returned (seq %d > %d)", kind, cb.Enter, p.DeadSeq)
	}
	switch kind {
	case "est":
		if p.st != plDown {
			p.viol("est-while-"+plNames[p.st], "OnEstablished while %s (sessions must not overlap)", plNames[p.st])
		}
		p.st = plInE
		p.estTask = task
		p.NEst++
	case "upd":
		if p.st != plUp {
			p.viol("upd-while-"+plNames[p.st], "update handler invoked while %s", plNames[p.st])
		} else if task != p.estTask {
			p.viol("upd-other-task", "update handler invoked by task %s, session established by %s", task, p.estTask)
		}
		if p.st == plUp {
			p.st = plInH
		}
		p.NUpd++
	case "close":
		if p.st != plUp {
			p.viol("close-while-"+plNames[p.st], "OnClose while %s", plNames[p.st])
		}
		p.st = plInC
		p.NClose++
	case "caps":
		p.NCaps++
	case "open":
		p.NOpen++
		if p.Oracle {
			if cb.Conn == nil {
				p.viol("onopen-unattributable", "OnOpenMessage by task %s which has sent no OPEN on any connection", task)
			} else {
				cb.Conn.OpenCBs++
				if cb.Conn.OpenCBs > 1 {
					p.viol("onopen-twice", "OnOpenMessage invoked %d times for connection %s", cb.Conn.OpenCBs, cb.Conn)
				}
			}
		}
	}
	simrt.Yield("plugin." + kind + ".in")
	return cb
}

func (p *Plug) exit(cb *CB) {
	simrt.Yield("plugin." + cb.Kind + ".out")
	cb.TExit = p.w.Now()
	cb.Exit = p.w.Ev("plugin %s %s exit", p.Name, cb.Kind)
	switch cb.Kind {
	case "est":
		if p.st == plInE {
			p.st = plUp
		}
	case "upd":
		if p.st == plInH {
			p.st = plUp
		}
	case "close":
		if p.st == plInC {
			p.st = plDown
		}
	}
}

// IsDown reports whether no session is open or being opened/closed.
func (p *Plug) IsDown() bool   { return p.st == plDown }
func (p *Plug) IsUp() bool     { return p.st == plUp || p.st == plInH }
func (p *Plug) StName() string { return plNames[p.st] }

// MarkStopped records that DeletePeer/Close has returned for this instance.
func (p *Plug) MarkStopped(seq uint64) {
	if p.st != plDown {
		p.viol("open-at-stop-"+plNames[p.st], "DeletePeer/Close returned while the callback state is %s (OnEstablished without OnClose)", plNames[p.st])
	}
	p.Dead = true
	p.DeadSeq = seq
}

func (p *Plug) GetCapabilities(c corebgp.PeerConfig) []corebgp.Capability {
	cb := p.enter("caps")
	cb.Idx = p.NCaps - 1
	var r []corebgp.Capability
	if p.CapsFn != nil {
		r = p.CapsFn(cb.Idx)
	}
	p.exit(cb)
	p.w.Net.noteCaps(cb.Task)
	return r
}

func (p *Plug) OnOpenMessage(c corebgp.PeerConfig, rid netip.Addr, caps []corebgp.Capability) *corebgp.Notification {
	cb := p.enter("open")
	cb.RID = rid
	for _, x := range caps {
		cb.Caps = append(cb.Caps, Cap{x.Code, append([]byte(nil), x.Value...)})
	}
	var n *corebgp.Notification
	if p.OpenFn != nil {
		n = p.OpenFn(rid, caps)
	}
	cb.Ret = n
	p.exit(cb)
	return n
}

func (p *Plug) OnEstablished(c corebgp.PeerConfig, wr corebgp.UpdateMessageWriter) corebgp.UpdateMessageHandler {
	cb := p.enter("est")
	s := &Session{N: len(p.Sessions), Writer: wr, Conn: cb.Conn, Est: cb}
	p.Sessions = append(p.Sessions, s)
	p.Writers = append(p.Writers, wr)
	p.LastEst = cb
	p.EstConn = cb.Conn
	if p.EstFn != nil {
		p.EstFn(p, s)
	}
	p.exit(cb)
	if p.NilHandler {
		return nil
	}
	return func(c corebgp.PeerConfig, u []byte) *corebgp.Notification {
		cb := p.enter("upd")
		cb.Idx = len(s.Updates)
		cb.orig = u
		cb.Update = append([]byte(nil), u...)
		s.Updates = append(s.Updates, cb)
		var n *corebgp.Notification
		if p.UpdFn != nil {
			n = p.UpdFn(p, s, cb.Idx, u)
		}
		cb.Ret = n
		p.exit(cb)
		return n
	}
}

func (p *Plug) OnClose(c corebgp.PeerConfig) {
	cb := p.enter("close")
	if len(p.Sessions) > 0 {
		s := p.Sessions[len(p.Sessions)-1]
		if s.Close == nil {
			s.Close = cb
		}
	}
	if p.CloseFn != nil {
		p.CloseFn(p)
	}
	p.exit(cb)
}

// CurSession returns the open session, if any.
func (p *Plug) CurSession() *Session {
	if len(p.Sessions) == 0 {
		return nil
	}
	s := p.Sessions[len(p.Sessions)-1]
	if s.Close != nil {
		return nil
	}
	return s
}

// CheckNoMutation verifies that delivered UPDATE slices still hold what they
// held at delivery time.
func (p *Plug) CheckNoMutation() (bad *CB) {
	for _, cb := range p.CBs {
		if cb.Kind == "upd" && !bytes.Equal(cb.orig, cb.Update) {
			return cb
		}
	}
	return nil
}

// Count returns the number of callbacks of a kind.
func (p *Plug) Count(kind string) int {
	n := 0
	for _, cb := range p.CBs {
		if cb.Kind == kind {
			n++
		}
	}
	return n
}

// ConnOfTask returns the connection a task most recently wrote to.
func (n *Net) ConnOfTask(task string) *Conn {
	n.mu.Lock()
	defer n.mu.Unlock()
	for i := len(n.Conns) - 1; i >= 0; i-- {
		c := n.Conns[i]
		if c.ownerTask == task {
			return c
		}
	}
	return nil
}
