package sim

import (
	"bytes"
	"encoding/binary"
	"fmt"
	"time"

	"github.com/jwhited/corebgp"
)

// C04 — outbound byte stream is whole well-formed messages; WriteUpdate contract.
func init() {
	register(&Property{ID: "C04", Run: runC04,
		Rule: "per run: hold time 3-9 s (keepalive timers fire constantly in virtual time), 1-3 successive sessions each torn down by a drawn cause (remote FIN, RST, silence until hold expiry, handler NOTIFICATION, Server.Close), 0-4 writer tasks per session plus WriteUpdate calls from inside OnEstablished and the update handler, bodies 0..4077 bytes with unique tags, writers keep using stale handles after their session ended; Conn.Write has a schedule point before its atomic append so two writes that should have been one are interleaved; non-trivial when at least one WriteUpdate returned nil; distinct = distinct (teardown causes, per-session call/ok/error counts, frame type sequence per connection)"})
}

type wuCall struct {
	writer   string
	sess     *Session
	body     []byte
	invSeq   uint64
	retSeq   uint64
	invAt    time.Duration
	retAt    time.Duration
	returned bool
	err      error
	n        int
}

func runC04(w *World) {
	w.NoStall = true
	dir := Dir(w.Draw(2, "dir"))
	hold := w.Range(3, 9, "hold")
	if w.Chance(1, 5, "zero-hold") {
		hold = 0 // no keepalive timers at all: WriteUpdate must work all the same
		w.Probe("negotiated-hold-time-zero")
	}
	nsess := 1 + w.Draw(3, "nsess")
	var calls []*wuCall
	ncall := 0
	mkBody := func() []byte {
		l := Pick(w, "blen", 8, 12, 0, 1, 4, 23, 4076, 4077, -1, -1)
		if l < 0 {
			l = w.Range(8, 300, "blenr")
		}
		b := make([]byte, l)
		for i := range b {
			b[i] = byte(i * 7)
		}
		ncall++
		if l >= 8 {
			binary.BigEndian.PutUint64(b, 0xC04<<48|uint64(ncall))
		}
		return b
	}
	doCall := func(name string, ss *Session) *wuCall {
		c := &wuCall{writer: name, sess: ss, body: mkBody(), n: ncall}
		calls = append(calls, c)
		c.invAt = w.Now()
		c.invSeq = w.Ev("WriteUpdate invoke #%d by %s on session %d (%d bytes)", c.n, name, ss.N, len(c.body))
		// the caller owns its buffer again once WriteUpdate has returned
		arg := append([]byte(nil), c.body...)
		if len(c.body) == 0 && w.Draw(2, "nilbody") == 0 {
			arg = nil
		}
		c.err = ss.Writer.WriteUpdate(arg)
		for i := range arg {
			arg[i] = 0xAA
		}
		c.retAt = w.Now()
		c.retSeq = w.Ev("WriteUpdate return #%d err=%v", c.n, c.err)
		c.returned = true
		return c
	}
	writersAlive := 0
	handlerNotifSession := -1
	s := NewStd1(w, Std1Opts{Dir: dir, Passive: dir == DirIn && w.Draw(2, "passive") == 1, LocalHold: hold, RemoteHold: uint16(w.Range(3, 9, "rhold")), Vary: true,
		IdleHold: time.Second, Retry: 2 * time.Second,
		Configure: func(p *PeerH) {
			p.Plug.EstFn = func(pl *Plug, ss *Session) {
				for i, n := 0, w.Draw(3, "inest"); i < n; i++ {
					doCall("OnEstablished", ss)
					w.Probe("call-inside-OnEstablished")
				}
				nw := w.Draw(5, "nwriters")
				for k := 0; k < nw; k++ {
					name := fmt.Sprintf("writer%d.%d", ss.N, k)
					n := w.Range(1, 8, "ncalls")
					writersAlive++
					w.Go(name, func() {
						defer func() { writersAlive-- }()
						for i := 0; i < n; i++ {
							doCall(name, ss)
							if w.Chance(1, 3, "wsleep") {
								w.Sleep(time.Duration(w.Range(1, 2500, "wsleepms")) * time.Millisecond)
							} else {
								w.Yield("writer.between")
							}
						}
					})
				}
			}
			p.Plug.CloseFn = func(pl *Plug) {
				// the session has ended: a write from inside OnClose must fail
				if n := len(pl.Sessions); n > 0 && w.Chance(1, 2, "inclose") {
					doCall("OnClose", pl.Sessions[n-1])
					w.Probe("call-inside-OnClose")
				}
			}
			p.Plug.UpdFn = func(pl *Plug, ss *Session, idx int, b []byte) *corebgp.Notification {
				if w.Chance(1, 2, "inhandler") {
					doCall("handler", ss)
					w.Probe("call-inside-handler")
				}
				if handlerNotifSession == ss.N {
					handlerNotifSession = -1
					return &corebgp.Notification{Code: 6, Subcode: 0}
				}
				return nil
			}
		}})
	if s == nil {
		return
	}
	p := s.P
	// a second peer with its own healthy session: nothing written through the
	// first peer's writers may ever show up on its connections
	by := s.E.NewPeer(PeerSpec{RemoteIP: "10.0.0.3", LocalAS: 65001, RemoteAS: 65003, Hold: 9, IdleHold: time.Second, ConnectRetry: 2 * time.Second}, "10.0.0.3", 9)
	by.Site.DialPolicy = func(*DialRec) int { return 1 }
	by.Site.OnConn = func(c *Conn) { by.Speaker.Serve(c, nil) }
	if err := s.E.Add(by); err != nil {
		w.HarnessError("C04 bystander: %v", err)
		return
	}
	var causes []string
	stalls := 0
	for k := 0; k < nsess; k++ {
		c := s.E.OpenConn(p, dir, 10*time.Minute)
		if c == nil {
			w.Probe("no-connection")
			break
		}
		o, ok := p.Speaker.Handshake(c, time.Minute)
		if !ok {
			w.Probe("handshake-failed")
			if c.LocalClosed() {
				c.FIN()
			}
			continue
		}
		nsess0 := len(p.Plug.Sessions)
		if !w.WaitUntil("c04.est", time.Minute, func() bool { return len(p.Plug.Sessions) > nsess0 || c.LocalClosed() }) || c.LocalClosed() {
			w.Probe("not-established")
			c.FIN()
			continue
		}
		cause := Pick(w, "teardown", "fin", "rst", "silence", "handler-notification", "close")
		if k+1 < nsess && cause == "close" {
			cause = "fin"
		}
		if hold == 0 && cause == "silence" {
			cause = "rst" // nothing expires with a zero hold time
		}
		if cause == "close" && k+1 == nsess {
			cause = "close"
		}
		causes = append(causes, cause)
		w.Probe("teardown:" + cause)
		quietRemote := false
		life := time.Duration(w.Range(0, 12000, "lifems")) * time.Millisecond
		end := w.Now() + life
		stop := func() bool { return w.Now() >= end }
		// back-pressure: the remote stops reading for a while (its socket buffers take
		// a few more bytes, then corebgp's writes block), then reads on. Every message
		// must still arrive whole and exactly once; calls may block meanwhile.
		if w.Chance(1, 3, "remote-stalls") {
			maxStall := 20 * time.Second // hold time 0: nothing expires
			if neg := p.Speaker.Negotiated(o); neg > 0 {
				// stay well inside the hold time: while its writes block corebgp does not
				// look at its timers, and the remote itself keeps sending on time
				maxStall = neg / 2
			}
			stalls++
			w.Go("remote-stalls", func() {
				defer func() { stalls-- }()
				w.Sleep(time.Duration(w.Range(0, int(life/time.Millisecond)+1, "stallat")) * time.Millisecond)
				if c.LocalClosed() || c.RemoteClosed() {
					return
				}
				c.StallWrites(Pick(w, "stallwindow", 0, 7, 19, 25, 100, 2000, 5000))
				w.Sleep(time.Duration(w.Range(1, int(maxStall/time.Millisecond), "stallms")) * time.Millisecond)
				c.ResumeWrites()
				w.Probe("remote-stalled-and-resumed")
			})
		}
		// a few UPDATEs from the remote to trigger the handler
		w.Go("remote-updates", func() {
			for i, n := 0, w.Draw(4, "nrupd"); i < n && !c.LocalClosed() && !c.RemoteClosed(); i++ {
				w.Sleep(time.Duration(w.Range(0, 3000, "rupdms")) * time.Millisecond)
				if quietRemote {
					return
				}
				c.Deliver(MkFrame(MsgUpdate, []byte{0, 0, 0, byte(i)}))
			}
		})
		if cause == "silence" {
			// no keepalives at all: the hold timer expires
			w.WaitUntil("c04.expiry", time.Minute, c.LocalClosed)
			c.FIN()
		} else {
			r := p.Speaker.KeepAlive(c, o, stop)
			if r == "stopped" && hold == 0 && (cause == "fin" || cause == "rst") && !c.LocalClosed() && w.Chance(1, 2, "stall-for-good") {
				// The remote stops reading for good and then ends the connection. With a
				// zero hold time corebgp itself has nothing to write, so only WriteUpdate
				// callers can be stuck in a write: the teardown must release them.
				// (no UPDATE of the remote is in flight or follows: a handler that writes would
				// block the FSM goroutine itself, which then cannot notice the end either)
				quietRemote = true
				w.Quiesce()
				c.StallWrites(Pick(w, "stallwindow2", 0, 7, 19, 100, 5000))
				w.Sleep(time.Duration(w.Range(0, 3000, "stall2ms")) * time.Millisecond)
				w.Probe("remote-stops-reading-for-good-then-ends")
			}
			if r == "stopped" {
				switch cause {
				case "fin":
					c.FIN()
				case "rst":
					c.RST()
				case "handler-notification":
					if n := len(p.Plug.Sessions); n > 0 {
						handlerNotifSession = p.Plug.Sessions[n-1].N
					}
					c.Deliver(MkFrame(MsgUpdate, []byte{9, 9, 9, 9}))
					w.WaitUntil("c04.hnotif", 10*time.Second, c.LocalClosed)
					c.FIN()
				case "close":
				}
			}
		}
		if cause != "close" {
			w.WaitUntil("c04.down", time.Minute, func() bool { return p.Plug.IsDown() })
		}
	}
	// (a Close while the remote is not reading waits for it: not this property's business)
	w.WaitUntil("c04.stalls", time.Minute, func() bool { return stalls == 0 })
	s.E.FinishRun()
	w.WaitUntil("c04.writers", 5*time.Minute, func() bool { return writersAlive == 0 })
	w.Quiesce()

	// ---------------- oracle ----------------
	nok := 0
	for _, c := range calls {
		if c.returned && c.err == nil {
			nok++
		}
	}
	w.NonTrivial = nok > 0
	shape := ""
	for _, c := range w.Net.AllConns() {
		shape += "/"
		for _, f := range c.AllFrames() {
			shape += string("?OUNK"[f.Type])
		}
	}
	w.Rel(fmt.Sprintf("%v|%d|%d|%s", causes, len(calls), nok, shape))
	w.Sample["teardown_causes"] = fmt.Sprint(causes)
	w.Sample["writeupdate_calls"] = len(calls)
	w.Sample["writeupdate_ok"] = nok
	w.Sample["frames_per_connection"] = shape
	for _, c := range w.Net.AllConns() {
		c.mu.Lock()
		c.mu.Unlock()
		m := c.StreamFault(true)
		if m != "" {
			w.Violate("C04/stream/malformed", "outbound stream of %s is not a concatenation of whole well-formed messages: %s", c, m)
			return
		}
	}
	for _, c := range calls {
		if !c.returned {
			w.Violate("C04/writeupdate/never-returned", "WriteUpdate #%d by %s (session %d) never returned", c.n, c.writer, c.sess.N)
			return
		}
		if c.retAt != c.invAt && !stalledDuring(c.sess.Conn, c.invAt, c.retAt) {
			w.Violate("C04/writeupdate/blocked", "WriteUpdate #%d by %s blocked for %v of virtual time", c.n, c.writer, c.retAt-c.invAt)
			return
		}
		if c.sess.Close != nil && c.invSeq > c.sess.Close.Enter && c.err == nil {
			w.Violate("C04/writeupdate/ok-after-session-end", "WriteUpdate #%d by %s was invoked after OnClose of its session began and returned nil", c.n, c.writer)
			return
		}
	}
	// multiset accounting per connection
	type key struct {
		conn *Conn
		body string
	}
	okc, errc, wire := map[key]int{}, map[key]int{}, map[key]int{}
	for _, c := range calls {
		k := key{c.sess.Conn, string(c.body)}
		if c.err == nil {
			okc[k]++
		} else {
			errc[k]++
		}
	}
	for _, c := range w.Net.AllConns() {
		for _, f := range c.AllFrames() {
			if f.Type == MsgUpdate {
				wire[key{c, string(f.Body)}]++
			}
		}
	}
	for k, n := range wire {
		if okc[k]+errc[k] == 0 {
			// is it a body written through another session's writer?
			for k2 := range okc {
				if k2.body == k.body && k2.conn != k.conn {
					w.Violate("C04/writeupdate/wrong-connection", "an UPDATE written through the writer of the session on %v appeared on %v", k2.conn, k.conn)
					return
				}
			}
			for k2 := range errc {
				if k2.body == k.body && k2.conn != k.conn {
					w.Violate("C04/writeupdate/wrong-connection", "an UPDATE written through the (ended) session on %v appeared on %v", k2.conn, k.conn)
					return
				}
			}
			w.Violate("C04/stream/update-from-nowhere", "UPDATE %x (len %d) on %v matches no WriteUpdate call", clip([]byte(k.body), 16), len(k.body), k.conn)
			return
		}
		if n > okc[k]+errc[k] {
			w.Violate("C04/writeupdate/duplicated", "body %x appears %d times on %v for %d calls", clip([]byte(k.body), 16), n, k.conn, okc[k]+errc[k])
			return
		}
	}
	for k, n := range okc {
		if wire[k] < n {
			w.Violate("C04/writeupdate/ok-but-not-on-wire", "%d WriteUpdate calls with body %x (len %d) returned nil but it appears %d times on %v", n, clip([]byte(k.body), 16), len(k.body), wire[k], k.conn)
			return
		}
	}
	// per-writer order
	pos := map[string]int{}
	for _, c := range w.Net.AllConns() {
		for i, f := range c.AllFrames() {
			if f.Type == MsgUpdate && len(f.Body) >= 8 {
				pos[fmt.Sprintf("%p|%s", c, f.Body[:8])] = i
			}
		}
	}
	last := map[string]int{}
	for _, c := range calls {
		if c.err != nil || len(c.body) < 8 {
			continue
		}
		pi, ok := pos[fmt.Sprintf("%p|%s", c.sess.Conn, c.body[:8])]
		if !ok {
			continue
		}
		wk := fmt.Sprintf("%s|%d", c.writer, c.sess.N)
		if c.writer == "handler" || c.writer == "OnEstablished" || c.writer == "OnClose" {
			wk = "fsm|" + fmt.Sprint(c.sess.N)
		}
		if l, ok := last[wk]; ok && pi < l {
			w.Violate("C04/writeupdate/order", "calls by %s appear on the wire out of call order", c.writer)
			return
		}
		last[wk] = pi
	}
	_ = bytes.Equal
}

// stalledDuring reports whether the remote of c was not reading at some instant of [from, to].
func stalledDuring(c *Conn, from, to time.Duration) bool {
	if c == nil {
		return false
	}
	c.mu.Lock()
	defer c.mu.Unlock()
	for i, at := range c.StallAt {
		end := time.Duration(1<<62 - 1)
		if i < len(c.ResumeAt) {
			end = c.ResumeAt[i]
		}
		if at <= to && end >= from {
			return true
		}
	}
	return false
}
