package sim

import (
	"fmt"
	"time"

	"github.com/jwhited/corebgp"
)

// C11 — reconnection liveness and retry pacing after non-damping faults.
func init() {
	register(&Property{ID: "C11", Run: runC11,
		Rule: "per run: idle-hold and connect-retry times from 0.2-30 s (all orderings), active or passive peer, a fault prefix of 0-8 elements from {refuse after delta, stalled connect, accept then FIN/RST/Cease at OpenSent/OpenConfirm/Established, inbound session on an active peer ended by FIN/RST/Cease}, then a well-behaved remote; dial timestamps are the transport's own records in virtual time; non-trivial when at least one fault element was executed; distinct = distinct (config class, fault sequence, dial count)"})
}

type c11dial struct {
	d       *DialRec
	at      time.Duration
	outcome string // refused, stalled, accepted
	delta   time.Duration
}

func runC11(w *World) {
	w.NoStall = true
	ih := time.Duration(Pick(w, "ih", 200, 1000, 5000, 30000, 0)) * time.Millisecond
	if ih == 0 {
		ih = time.Duration(w.Range(200, 30000, "ihr")) * time.Millisecond
	}
	cr := time.Duration(Pick(w, "cr", 1000, 200, 5000, 30000, 0)) * time.Millisecond
	if cr == 0 {
		cr = time.Duration(w.Range(200, 30000, "crr")) * time.Millisecond
	}
	ihOpt, crOpt := ih, cr
	if w.Chance(1, 8, "default-timers") {
		// no WithIdleHoldTime / WithConnectRetryTime options: the documented defaults apply
		ih, cr = corebgp.DefaultIdleHoldTime, corebgp.DefaultConnectRetryTime
		ihOpt, crOpt = -1, -1
		w.Probe("default-idle-hold-and-connect-retry")
	}
	passive := w.Chance(1, 4, "passive")
	dir := DirOut
	if passive {
		dir = DirIn
	}
	s := NewStd1(w, Std1Opts{Dir: DirOut, Passive: passive, LocalHold: 90, RemoteHold: 90, IdleHold: ihOpt, Retry: crOpt, Vary: true})
	if s == nil {
		return
	}
	p, e := s.P, s.E
	bound := ih + cr + time.Second
	var dials []*c11dial
	var seq []string
	nextDial := func(what string) *c11dial {
		d := p.Site.WaitDial(bound)
		if d == nil {
			w.Violate("C11/liveness/no-dial", "no outbound attempt within idle-hold %v + connect-retry %v + 1 s while %s (last events: %v)", ih, cr, what, seq)
			return nil
		}
		cd := &c11dial{d: d, at: d.At}
		dials = append(dials, cd)
		return cd
	}
	endConn := func(c *Conn, kind int) {
		switch kind {
		case 0:
			c.FIN()
		case 1:
			c.RST()
		default:
			c.Deliver(MkNotif(6, byte(w.Draw(9, "ceasesub")), nil))
			w.Quiesce()
			c.FIN()
		}
		w.Quiesce()
	}
	kinds := []string{"fin", "rst", "cease"}
	nfault := w.Draw(9, "nfault")
	for i := 0; i < nfault && !w.Failed(); i++ {
		if passive {
			kind, ph := w.Draw(3, "kind"), w.Draw(3, "phase")
			seq = append(seq, fmt.Sprintf("inbound-%s@%s", kinds[kind], stNames[ph]))
			c := e.OpenConn(p, DirIn, time.Minute)
			if _, err := e.Advance(p, c, ph, time.Minute); err != nil {
				w.Violate("C11/liveness/passive-not-admitted", "passive peer, fault %d (%v): a new inbound connection was not served after earlier transport faults: %v", i, seq, err)
				return
			}
			endConn(c, kind)
			w.Sleep(time.Duration(w.Range(0, 3000, "gapms")) * time.Millisecond)
			continue
		}
		switch el := w.Draw(8, "element"); el {
		case 6, 7: // a connection collision whose survivor then fails before Established
			cd := nextDial("expecting an attempt to accept (collision)")
			if cd == nil {
				return
			}
			cd.outcome = "accepted"
			O := cd.d.Accept()
			if O == nil || ExpectOpen(O, time.Second) == nil {
				seq = append(seq, "collision-aborted")
				if O != nil {
					O.FIN()
				}
				w.Quiesce()
				continue
			}
			I := e.OpenConn(p, DirIn, time.Minute)
			if ExpectOpen(I, time.Second) == nil {
				seq = append(seq, "collision-aborted")
				O.FIN()
				I.FIN()
				w.Quiesce()
				continue
			}
			w.Quiesce()
			first, second := O, I
			if w.Draw(2, "collfirst") == 1 {
				first, second = I, O
			}
			first.SendSeg(p.Speaker.OpenFrame())
			first.WaitFrame(time.Second)
			w.Quiesce()
			how := w.Draw(3, "collhow")
			switch how {
			case 0: // plain resolution, then the survivor fails in OpenConfirm
				second.SendSeg(p.Speaker.OpenFrame())
				w.Quiesce()
			case 1: // the first connection goes down by itself while the second asks for OpenConfirm
				w.Go("coll-down", func() { first.FIN() })
				second.SendSeg(p.Speaker.OpenFrame())
				w.Quiesce()
			default: // ... or is reset
				w.Go("coll-down", func() { first.RST() })
				second.SendSeg(p.Speaker.OpenFrame())
				w.Quiesce()
			}
			for _, c := range []*Conn{O, I} {
				if !c.LocalClosed() && !c.RemoteClosed() {
					if w.Draw(2, "collend") == 0 {
						c.FIN()
					} else {
						c.RST()
					}
				}
			}
			w.Quiesce()
			seq = append(seq, fmt.Sprintf("collision(%d)-then-survivor-fails", how))
			w.Probe("collision-element")
			if w.Draw(2, "coll-probe") == 0 {
				// both connections are gone: the peer has no session, no inbound
				// connection in progress and is not damped, so a new inbound
				// connection must be served
				c3 := e.OpenConn(p, DirIn, time.Minute)
				if ExpectOpen(c3, time.Second) == nil {
					w.Violate("C11/resume-dialling/inbound-not-admitted-after-collision", "after %v both connections were gone, yet a new inbound connection was not admitted (closed=%v, %d bytes)", seq, c3.LocalClosed(), c3.OutLen())
					return
				}
				c3.FIN()
				w.Quiesce()
				w.Probe("inbound-admitted-after-collision")
			}
			for _, d := range p.Site.DialList() {
				if d.Returned {
					d.Taken = true
				}
			}
		case 0, 1: // refuse after delta
			cd := nextDial("expecting an attempt to refuse")
			if cd == nil {
				return
			}
			cd.outcome = "refused"
			cd.delta = time.Duration(Pick(w, "delta", 0, 0, 100, -1)) * time.Millisecond
			if cd.delta < 0 {
				cd.delta = time.Duration(w.Range(0, int(3*ih/time.Millisecond), "deltar")) * time.Millisecond
				if cd.delta >= cr {
					cd.delta = cr / 2
				}
			}
			if cd.delta > 0 {
				w.Sleep(cd.delta)
			}
			cd.d.Refuse()
			seq = append(seq, fmt.Sprintf("refuse+%v", cd.delta))
		case 2: // stalled connect: corebgp must abandon it at connect-retry and start a new one
			cd := nextDial("expecting an attempt to stall")
			if cd == nil {
				return
			}
			cd.outcome = "stalled"
			seq = append(seq, "stall")
			if !w.WaitUntil("c11.cancel", cr+time.Second, func() bool { return cd.d.Returned }) {
				w.Violate("C11/connect-retry/not-abandoned", "an attempt started at %v was still pending %v later (connect-retry %v)", cd.at, w.Now()-cd.at, cr)
				return
			}
			if !cd.d.Cancelled {
				w.HarnessError("stalled dial returned without cancellation")
				return
			}
			if cd.d.RetAt < cd.at+cr-time.Millisecond {
				w.Violate("C11/connect-retry/abandoned-early", "an attempt started at %v was abandoned at %v, before connect-retry %v elapsed", cd.at, cd.d.RetAt, cr)
				return
			}
			nd := p.Site.WaitDial(time.Second)
			if nd == nil {
				w.Violate("C11/connect-retry/no-new-attempt", "connect-retry expired at %v but no new attempt followed within 1 s", cd.d.RetAt)
				return
			}
			// hand the new attempt to the next element by un-taking it
			nd.Taken = false
			w.Probe("connect-retry-redial")
		case 3, 4: // accept then FIN/RST/Cease at a phase
			kind, ph := w.Draw(3, "kind"), w.Draw(3, "phase")
			cd := nextDial("expecting an attempt to accept")
			if cd == nil {
				return
			}
			cd.outcome = "accepted"
			seq = append(seq, fmt.Sprintf("accept-%s@%s", kinds[kind], stNames[ph]))
			c := cd.d.Accept()
			if c == nil {
				continue
			}
			if _, err := e.Advance(p, c, ph, time.Minute); err != nil {
				w.Violate("C11/liveness/handshake-failed", "after %v a well-formed handshake on a new connection failed: %v", seq, err)
				return
			}
			if ph == StOpenSent && kind != 2 && w.Chance(1, 2, "open-then-close") {
				// the remote's OPEN arrives and the connection dies right behind it: the
				// reset may land before corebgp writes its KEEPALIVE reply
				c.SendSeg(p.Speaker.OpenFrame())
				for i, n := 0, w.Draw(12, "resetyields"); i < n; i++ {
					w.Yield("c11.open-then-close")
				}
				seq[len(seq)-1] += "+open-first"
				w.Probe("open-then-close")
			}
			endConn(c, kind)
		case 5: // inbound session on an active peer, then it ends: dialling resumes at once
			kind := w.Draw(3, "kind")
			seq = append(seq, "inbound-session-"+kinds[kind])
			p.Site.DialPolicy = func(*DialRec) int { return 2 }
			c := e.OpenConn(p, DirIn, time.Minute)
			if _, err := e.Advance(p, c, StEstablished, time.Minute); err != nil {
				w.Probe("inbound-session-not-established")
				p.Site.DialPolicy = nil
				w.Quiesce()
				continue
			}
			w.Sleep(time.Duration(w.Range(0, 20000, "upms")) * time.Millisecond)
			nd := p.Site.NDials()
			t := w.Now()
			endConn(c, kind)
			if !w.WaitUntil("c11.resume", time.Second, func() bool { return p.Site.NDials() > nd }) {
				w.Violate("C11/resume-dialling/after-inbound-session", "an inbound session of an active peer ended (%s) at %v but no outbound attempt followed within 1 s", kinds[kind], t)
				return
			}
			w.Quiesce()
			if w.Draw(2, "probeinbound") == 0 {
				c2 := e.OpenConn(p, DirIn, time.Minute)
				if ExpectOpen(c2, time.Second) == nil {
					w.Violate("C11/resume-dialling/inbound-not-admitted", "after an inbound session ended (%s) a new inbound connection was not admitted (closed=%v, %d bytes)", kinds[kind], c2.LocalClosed(), c2.OutLen())
					return
				}
				w.Probe("inbound-session-resume")
				c2.FIN()
				w.Quiesce()
			} else {
				w.Probe("inbound-session-then-outbound-only")
			}
			for _, d := range p.Site.DialList() {
				d.Taken = true
			}
			p.Site.DialPolicy = nil
		}
	}
	if w.Failed() {
		return
	}
	// ---- T0: the remote is well-behaved from now on ----
	w.Quiesce()
	t0 := w.Now()
	w.NonTrivial = nfault > 0
	nest := p.Plug.NEst
	var limit time.Duration
	if passive {
		c := e.OpenConn(p, DirIn, time.Minute)
		w.Go("good-remote", func() { p.Speaker.Serve(c, nil) })
		limit = time.Second
	} else {
		p.Site.DialPolicy = func(*DialRec) int { return 1 }
		p.Site.OnConn = func(c *Conn) { p.Speaker.Serve(c, nil) }
		// an attempt that is already pending is answered now
		for _, d := range p.Site.DialList() {
			if !d.Taken && d.Pending() {
				d.Taken = true
				if c := d.Accept(); c != nil {
					w.Go("good-remote", func() { p.Speaker.Serve(c, nil) })
				}
			}
		}
		limit = bound
	}
	ok := w.WaitUntil("c11.l1", limit, func() bool { return p.Plug.NEst > nest })
	w.Rel(fmt.Sprintf("%v|%v|%v|%v|%d", ih, cr, passive, seq, len(p.Site.DialList())))
	w.Sample["idle_hold"] = ih.String()
	w.Sample["connect_retry"] = cr.String()
	w.Sample["passive"] = passive
	w.Sample["fault_prefix"] = fmt.Sprint(seq)
	w.Sample["dial_attempts"] = len(p.Site.DialList())
	if !ok {
		w.Violate("C11/liveness/not-established", "faults %v ended at %v; with a well-behaved remote the session must be Established within %v, but it is not at %v (idle-hold %v, connect-retry %v, passive %v, %d dial attempts)", seq, t0, limit, w.Now(), ih, cr, passive, len(p.Site.DialList()))
		return
	}
	// (L2) pacing while refused: consecutive attempts of one FSM goroutine. An
	// attempt is known to have been started from Idle (with the idle-hold timer
	// re-armed at that instant) when it is the FSM's first attempt or follows a
	// refused one; if it is refused too, the next attempt must come no earlier
	// than one idle-hold time after it and no later than max(idle-hold, time
	// the refusal took) + 1 s.
	parent := func(id string) string {
		for i := len(id) - 1; i >= 0; i-- {
			if id[i] == '.' {
				return id[:i]
			}
		}
		return id
	}
	all := p.Site.DialList()
	for i := 0; i+1 < len(all); i++ {
		a, b := all[i], all[i+1]
		if a.Outcome != "refused" || parent(a.Task) != parent(b.Task) {
			continue
		}
		fromIdle := i == 0 || parent(all[i-1].Task) != parent(a.Task) || all[i-1].Outcome == "refused"
		if !fromIdle {
			continue
		}
		gap := b.At - a.At
		delta := a.RetAt - a.At
		lo := ih - time.Millisecond
		hi := max(ih, delta) + time.Second
		if gap < lo {
			w.Violate("C11/pacing/too-fast", "attempt %d at %v was refused and attempt %d followed at %v, %v later; idle-hold time is %v", a.ID, a.At, b.ID, b.At, gap, ih)
			return
		}
		if gap > hi {
			w.Violate("C11/pacing/too-slow", "attempt %d at %v was refused after %v and attempt %d followed only at %v, %v later; idle-hold time is %v", a.ID, a.At, delta, b.ID, b.At, gap, ih)
			return
		}
		w.Probe("pacing-gap-checked")
	}
	_ = dials
	if passive {
		if n := p.Site.NDials(); n != 0 {
			w.Violate("C11/passive-dials", "a passive peer made %d outbound attempts", n)
			return
		}
		if e.Controls[p.Spec.RemoteIP] != 0 {
			w.Violate("C11/passive-dials", "the dialer control callback fired for a passive peer")
			return
		}
	} else if e.Controls[p.Spec.RemoteIP] != p.Site.NDials() {
		w.Violate("C11/dialer-control-count", "%d dial attempts but the WithDialerControl callback fired %d times", p.Site.NDials(), e.Controls[p.Spec.RemoteIP])
		return
	}
	_ = dir
	// once the final session ends the peer must again accept an inbound connection
	// (and, if active, dial): nothing of the fault history may linger
	if w.Chance(1, 2, "final-admission") {
		p.Site.DialPolicy = func(*DialRec) int { return 2 }
		p.Site.OnConn = nil
		for _, c := range p.Site.ConnList() {
			if !c.LocalClosed() && !c.RemoteClosed() {
				c.FIN()
			}
		}
		w.WaitUntil("c11.finaldown", 10*time.Second, p.Plug.IsDown)
		w.Quiesce()
		for _, d := range p.Site.DialList() {
			if d.Pending() {
				d.Refuse()
			}
		}
		w.Quiesce()
		c2 := e.OpenConn(p, DirIn, time.Minute)
		if ExpectOpen(c2, time.Second) == nil {
			w.Violate("C11/resume-dialling/inbound-not-admitted-after-history", "after the history %v and a final session that ended normally, a new inbound connection was not admitted (closed=%v, %d bytes)", seq, c2.LocalClosed(), c2.OutLen())
			return
		}
		w.Probe("final-inbound-admitted")
		c2.FIN()
		w.Quiesce()
	}
	e.FinishRun()
}
