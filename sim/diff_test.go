package sim

// Differential smoke test for the instrumenter (DESIGN 7): the same fixed,
// fault-light scenario is executed natively (no simulator installed) once
// against the unmodified corebgp package and once against the instrumented
// copy in pass-through mode, inside a synctest bubble with the simulated
// transport; the wire and callback histories (with virtual timestamps) must be
// identical. `./check selftest` builds both binaries and compares the output.

import (
	"fmt"
	"net/netip"
	"sort"
	"sync"
	"sync/atomic"
	"testing"
	"testing/synctest"
	"time"

	"github.com/jwhited/corebgp"
)

type diffPlug struct {
	mu  sync.Mutex
	t0  time.Time
	log []string
	wr  corebgp.UpdateMessageWriter
}

func (p *diffPlug) ev(s string) {
	p.mu.Lock()
	p.log = append(p.log, fmt.Sprintf("%07d plugin %s", time.Since(p.t0).Milliseconds(), s))
	p.mu.Unlock()
}
func (p *diffPlug) GetCapabilities(corebgp.PeerConfig) []corebgp.Capability {
	p.ev("GetCapabilities")
	return []corebgp.Capability{corebgp.NewMPExtensionsCapability(2, 1)}
}
func (p *diffPlug) OnOpenMessage(_ corebgp.PeerConfig, id netip.Addr, caps []corebgp.Capability) *corebgp.Notification {
	p.ev(fmt.Sprintf("OnOpenMessage %v %d", id, len(caps)))
	return nil
}
func (p *diffPlug) OnEstablished(_ corebgp.PeerConfig, w corebgp.UpdateMessageWriter) corebgp.UpdateMessageHandler {
	p.ev("OnEstablished")
	p.mu.Lock()
	p.wr = w
	p.mu.Unlock()
	w.WriteUpdate([]byte{0, 0, 0, 0})
	return func(_ corebgp.PeerConfig, b []byte) *corebgp.Notification {
		p.ev(fmt.Sprintf("update %x", b))
		return nil
	}
}
func (p *diffPlug) OnClose(corebgp.PeerConfig) { p.ev("OnClose") }

func TestDiff(t *testing.T) {
	if *fProp != "DIFF" {
		t.Skip("only with -prop DIFF")
	}
	var out []string
	synctest.Test(t, func(t *testing.T) {
		w := NewWorld("DIFF", "diff", NewTape(1, 0), false)
		w.T0 = time.Now()
		w.Net = newNet(w)
		srv, err := corebgp.NewServer(netip.MustParseAddr("10.0.0.5"))
		if err != nil {
			t.Fatal(err)
		}
		plug := &diffPlug{t0: w.T0}
		if err := srv.AddPeer(corebgp.PeerConfig{RemoteAddress: netip.MustParseAddr("10.0.1.1"), LocalAS: 65001, RemoteAS: 65101}, plug,
			corebgp.WithPassive(), corebgp.WithHoldTime(9)); err != nil {
			t.Fatal(err)
		}
		lis := w.Net.NewListener("10.0.0.5:179")
		site := w.Net.NewSite("r", "10.0.1.1")
		serveDone := make(chan error, 1)
		go func() { serveDone <- srv.Serve(toNetListeners([]*Listener{lis})) }()
		var stop atomic.Bool
		speak := func(c *Conn, kaUntil time.Duration) {
			sentOpen, sentKA := false, false
			last := time.Now()
			for !stop.Load() && !c.LocalClosed() {
				for f := c.Next(); f != nil; f = c.Next() {
					switch {
					case f.Type == MsgOpen && !sentOpen:
						sentOpen = true
						c.Deliver(MkFrame(MsgOpen, GoodOpen(65101, 30, IPToU32("10.0.0.9"))))
					case f.Type == MsgKeepalive && !sentKA:
						sentKA = true
						c.Deliver(KeepaliveFrame())
						c.Deliver(MkFrame(MsgUpdate, []byte{1, 2, 3, 4}))
					}
				}
				if sentKA && time.Since(last) >= 2*time.Second && time.Since(w.T0) < kaUntil {
					last = time.Now()
					c.Deliver(KeepaliveFrame())
				}
				time.Sleep(10 * time.Millisecond)
			}
			c.FIN()
		}
		c1 := w.Net.DialIn(lis, site, "10.0.1.1", "10.0.0.5")
		go speak(c1, 20*time.Second) // then silent: hold timer (9 s) expires, peer is damped for 60 s
		time.Sleep(40 * time.Second)
		c2 := w.Net.DialIn(lis, site, "10.0.1.1", "10.0.0.5") // held down: refused
		time.Sleep(60 * time.Second)
		c3 := w.Net.DialIn(lis, site, "10.0.1.1", "10.0.0.5") // admitted again
		go speak(c3, time.Hour)
		time.Sleep(7 * time.Second)
		plug.mu.Lock()
		wr := plug.wr
		plug.mu.Unlock()
		if wr != nil {
			wr.WriteUpdate([]byte{9, 9, 9, 9})
		}
		time.Sleep(3 * time.Second)
		srv.Close()
		<-serveDone
		stop.Store(true)
		time.Sleep(time.Second)
		for i, c := range []*Conn{c1, c2, c3} {
			for _, f := range c.AllFrames() {
				out = append(out, fmt.Sprintf("%07d c%d %s %x", f.At.Milliseconds(), i+1, f.String(), f.Body))
			}
			out = append(out, fmt.Sprintf("%07d c%d closed=%v bytes=%d", c.LCloseAt.Milliseconds(), i+1, c.LocalClosed(), c.OutLen()))
		}
		plug.mu.Lock()
		out = append(out, plug.log...)
		plug.mu.Unlock()
	})
	sort.Strings(out)
	for _, l := range out {
		fmt.Println("DIFF " + l)
	}
}
