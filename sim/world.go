package sim

import (
	"fmt"
	"sort"
	"strings"
	"sync"
	"testing/synctest"
	"time"

	"simrt"

	"github.com/jwhited/corebgp"
)

// Violation is an oracle failure. Sig is the stable signature
// "<property>/<clause>/<normalised detail>".
type Violation struct {
	Sig    string
	Detail string
	Seq    uint64
	At     time.Duration
}

// World is one simulated run: scheduler state, event log, network, oracles.
type World struct {
	S    *simrt.Sim
	T    *Tape
	T0   time.Time
	Prop string
	Tier string

	mu      sync.Mutex
	seq     uint64
	hash    uint64
	keepLog bool
	Log     []string
	done    bool

	Viol *Violation
	HErr string

	Probes map[string]int
	Faults map[string]int
	// RelHash is the hash of the property-relevant event sequence (set by the
	// property via Rel); NonTrivial marks that the property's precondition was
	// really exercised in this run.
	relHash    uint64
	NonTrivial bool
	States     map[string]struct{}
	Trans      map[string]struct{}

	strategy  int
	preemptP  int
	prio      map[*simrt.Task]int
	pctPoints []int
	pctLow    int
	last      *simrt.Task
	MaxSteps  int
	Horizon   time.Duration
	NoStall   bool
	// SlowLogger accounting
	LogLines int
	LogSlept time.Duration
	LogMax   time.Duration // longest single block of the Logger (0: no slow Logger in this run)
	inLogger int

	deadlines []time.Time
	rootDone  bool
	stopped   bool

	Net *Net

	// stall faults: a task stays parked while the clock moves
	Stalls  bool
	stalled map[*simrt.Task]time.Time

	LastQuiesceSeq  uint64
	lastAdvanceStep int
	BudgetExhausted bool
	Sample          map[string]any
}

const fnvOff = 14695981039346656037
const fnvPrime = 1099511628211

func fnvAdd(h uint64, s string) uint64 {
	for i := 0; i < len(s); i++ {
		h ^= uint64(s[i])
		h *= fnvPrime
	}
	return h
}

func NewWorld(prop, tier string, tp *Tape, keepLog bool) *World {
	w := &World{
		T: tp, Prop: prop, Tier: tier, keepLog: keepLog,
		hash: fnvOff, relHash: fnvOff,
		Probes: map[string]int{}, Faults: map[string]int{},
		States: map[string]struct{}{}, Trans: map[string]struct{}{},
		MaxSteps: 40000, Horizon: 72 * time.Hour,
		Sample: map[string]any{},
	}
	return w
}

// Now is virtual time since the start of the run.
func (w *World) Now() time.Duration { return time.Since(w.T0) }

// Ev appends an event to the totally ordered log and returns its sequence number.
func (w *World) Ev(format string, a ...any) uint64 {
	w.mu.Lock()
	defer w.mu.Unlock()
	if w.done {
		return w.seq
	}
	w.seq++
	line := fmt.Sprintf("%d %d ", w.seq, int64(time.Since(w.T0))) + fmt.Sprintf(format, a...)
	w.hash = fnvAdd(w.hash, line)
	w.hash = fnvAdd(w.hash, "\n")
	if w.keepLog {
		w.Log = append(w.Log, fmt.Sprintf("%6d %12.6f ", w.seq, time.Since(w.T0).Seconds())+fmt.Sprintf(format, a...))
	}
	return w.seq
}

// Seq returns the current global event sequence number.
func (w *World) Seq() uint64 {
	w.mu.Lock()
	defer w.mu.Unlock()
	return w.seq
}

// Rel adds s to the property-relevant abstract trace (used for distinctness).
func (w *World) Rel(s string) {
	w.mu.Lock()
	w.relHash = fnvAdd(w.relHash, s)
	w.relHash = fnvAdd(w.relHash, "|")
	w.mu.Unlock()
}

func (w *World) State(s string) {
	w.mu.Lock()
	w.States[s] = struct{}{}
	w.mu.Unlock()
}

func (w *World) Transition(s string) {
	w.mu.Lock()
	w.Trans[s] = struct{}{}
	w.mu.Unlock()
}

func (w *World) Probe(name string) {
	w.mu.Lock()
	w.Probes[name]++
	w.mu.Unlock()
}

func (w *World) Fault(name string) {
	w.mu.Lock()
	w.Faults[name]++
	w.mu.Unlock()
}

// Violate records the first violation of the run and stops it.
func (w *World) Violate(sig, format string, a ...any) {
	w.mu.Lock()
	if w.Viol == nil && !w.done {
		w.Viol = &Violation{Sig: sig, Detail: fmt.Sprintf(format, a...), Seq: w.seq, At: time.Since(w.T0)}
	}
	w.mu.Unlock()
	w.Ev("VIOLATION %s", sig)
}

// HarnessError records that the harness itself is inconsistent (exit 2 class).
func (w *World) HarnessError(format string, a ...any) {
	w.mu.Lock()
	if w.HErr == "" && !w.done {
		w.HErr = fmt.Sprintf(format, a...)
	}
	w.mu.Unlock()
}

func (w *World) Failed() bool {
	w.mu.Lock()
	defer w.mu.Unlock()
	return w.Viol != nil || w.HErr != ""
}

// ---- choices ----

func (w *World) Draw(n int, what string) int { return w.T.Draw(n, what) }

// Chance is true with probability num/den; a zeroed tape gives false.
func (w *World) Chance(num, den int, what string) bool {
	v := w.T.Draw(den, what)
	return v >= 1 && v <= num
}

// Range draws an integer in [lo, hi]; a zeroed tape gives lo.
func (w *World) Range(lo, hi int, what string) int {
	if hi <= lo {
		return lo
	}
	return lo + w.T.Draw(hi-lo+1, what)
}

func Pick[T any](w *World, what string, xs ...T) T {
	return xs[w.T.Draw(len(xs), what)]
}

// ---- harness tasks ----

// Go starts a harness task as a child of the calling task.
func (w *World) Go(site string, fn func()) *simrt.Task {
	return w.S.SpawnChild(site, fn)
}

// Yield is a schedule point for harness code.
func (w *World) Yield(site string) { simrt.Yield(site) }

func (w *World) addDeadline(t time.Time) {
	w.mu.Lock()
	i := sort.Search(len(w.deadlines), func(i int) bool { return !w.deadlines[i].Before(t) })
	w.deadlines = append(w.deadlines, time.Time{})
	copy(w.deadlines[i+1:], w.deadlines[i:])
	w.deadlines[i] = t
	w.mu.Unlock()
}

// deadlineAfter returns a wake-up instant d from now that no other timer has.
func (w *World) deadlineAfter(d time.Duration) time.Time {
	if d < 0 {
		d = 0
	}
	off := w.S.UniqueOffset(d, 0)
	t := time.Now().Add(d + off)
	w.addDeadline(t)
	return t
}

// Sleep blocks the calling harness task for d of virtual time.
func (w *World) Sleep(d time.Duration) {
	t := w.deadlineAfter(d)
	simrt.WaitCond("sleep", "cond", func() bool { return !time.Now().Before(t) })
}

// WaitUntil blocks until cond holds or timeout elapses; it reports whether cond held.
func (w *World) WaitUntil(site string, timeout time.Duration, cond func() bool) bool {
	if timeout <= 0 {
		simrt.WaitCond(site, "cond", cond)
		return true
	}
	t := w.deadlineAfter(timeout)
	simrt.WaitCond(site, "cond", func() bool { return cond() || !time.Now().Before(t) })
	return cond()
}

// Quiesce blocks until no other task is runnable and no event is due at the
// current instant: every corebgp goroutine sits in a state-level wait.
func (w *World) Quiesce() {
	for {
		simrt.WaitCond("quiesce", "quiesce", func() bool { return true })
		if w.inLogger == 0 {
			return
		}
		// a corebgp goroutine is blocked inside the user's Logger: not a state-level wait
		simrt.WaitCond("quiesce.logger", "cond", func() bool { return w.inLogger == 0 })
	}
}

// Call is a recorded API invocation running in its own task.
type Call struct {
	Name      string
	Task      *simrt.Task
	InvSeq    uint64
	RetSeq    uint64
	InvAt     time.Duration
	RetAt     time.Duration
	Returned  bool
	Err       error
	StepsAtIn int
}

func (c *Call) Done() bool { return c.Returned }

// CallAsync runs fn (an API call) in a child task and records invoke/return.
func (w *World) CallAsync(name string, fn func() error) *Call {
	c := &Call{Name: name}
	c.Task = w.Go("api:"+name, func() {
		c.InvAt = w.Now()
		c.StepsAtIn = w.S.Steps
		c.InvSeq = w.Ev("api invoke %s", name)
		err := fn()
		c.Err = err
		c.RetAt = w.Now()
		c.RetSeq = w.Ev("api return %s err=%v", name, err)
		c.Returned = true
	})
	return c
}

// ---- the scheduler main loop ----

func (w *World) pickStrategy() {
	switch w.Draw(7, "strategy") {
	case 0, 1:
		w.strategy, w.preemptP = 0, 12
	case 2:
		w.strategy, w.preemptP = 0, 4
	case 3:
		w.strategy, w.preemptP = 0, 40
	case 4, 5:
		w.strategy = 1
	default:
		// PCT-style: random task priorities, the highest-priority runnable task
		// always runs; at d drawn steps the running task drops to the bottom
		w.strategy = 2
		w.prio = map[*simrt.Task]int{}
		for i, d := 0, 1+w.Draw(3, "pct-d"); i < d; i++ {
			w.pctPoints = append(w.pctPoints, w.Draw(3000, "pct-point"))
		}
	}
}

func topLibFrame(stack string) string {
	// first frame inside github.com/jwhited/corebgp that is not the panic machinery
	lines := strings.Split(stack, "\n")
	for i := 0; i+1 < len(lines); i++ {
		if strings.HasPrefix(lines[i], "github.com/jwhited/corebgp.") {
			loc := strings.TrimSpace(lines[i+1])
			if j := strings.LastIndex(loc, "/"); j >= 0 {
				loc = loc[j+1:]
			}
			if j := strings.Index(loc, " "); j >= 0 {
				loc = loc[:j]
			}
			fn := lines[i]
			if j := strings.LastIndex(fn, "("); j > 0 {
				fn = fn[:j]
			}
			fn = strings.TrimPrefix(fn, "github.com/jwhited/corebgp.")
			fn = strings.NewReplacer("(*", "", ")", "").Replace(fn)
			return fn + "@" + loc
		}
	}
	return ""
}

// loop runs until the root script is done, a violation or harness error is
// recorded, or a budget is exhausted.
func (w *World) loop() {
	for {
		synctest.Wait()
		if len(w.S.Panics) > 0 {
			p := w.S.Panics[0]
			if _, ok := p.Value.(simrt.ErrNotTask); ok {
				w.HarnessError("uninstrumented goroutine: %v\n%s", p.Value, p.Stack)
			} else if fr := topLibFrame(p.Stack); fr != "" {
				// §3.8: a panic with a corebgp frame on the stack is a violation of
				// whatever property is being checked.
				fn := fr
				if i := strings.Index(fn, "@"); i >= 0 {
					fn = fn[:i]
				}
				w.Violate(w.Prop+"/panic/"+fn, "panic in task %s at %s: %v\n%s", p.Task, fr, p.Value, p.Stack)
			} else {
				w.HarnessError("panic in harness task %s: %v\n%s", p.Task, p.Value, p.Stack)
			}
			return
		}
		if w.Failed() || w.rootDone {
			return
		}
		if run := w.S.Running(); len(run) > 0 {
			w.HarnessError("task %s is blocked in an operation the instrumenter did not see (last site %s)", run[0].ID, run[0].Site)
			return
		}
		if w.S.Steps >= w.MaxSteps {
			w.BudgetExhausted = true
			if w.S.Steps-w.lastAdvanceStep >= w.MaxSteps/2 {
				// virtual time has not moved for half the budget: a zero-time livelock
				w.livelock()
			}
			return
		}
		parked := w.S.Parked()
		var run, quiesce []*simrt.Task
		for _, t := range parked {
			if until, ok := w.stalled[t]; ok {
				if time.Now().Before(until) {
					continue
				}
				delete(w.stalled, t)
			}
			if t.Ready != nil && !t.Ready() {
				continue
			}
			if t.Tag == "quiesce" {
				quiesce = append(quiesce, t)
			} else {
				run = append(run, t)
			}
		}
		opts := run
		if len(opts) == 0 {
			// a quiescent point: every corebgp goroutine sits in a state-level wait
			// (unless one of them is blocked inside the user's Logger)
			if w.inLogger == 0 {
				w.mu.Lock()
				w.LastQuiesceSeq = w.seq
				w.mu.Unlock()
			}
			opts = quiesce
		}
		if len(opts) == 0 {
			// nothing can run at this instant: advance virtual time
			w.lastAdvanceStep = w.S.Steps
			now := time.Now()
			w.mu.Lock()
			for len(w.deadlines) > 0 && !w.deadlines[0].After(now) {
				w.deadlines = w.deadlines[1:]
			}
			var next *time.Timer
			if len(w.deadlines) > 0 {
				next = time.NewTimer(w.deadlines[0].Sub(now))
			}
			w.mu.Unlock()
			select {
			case <-w.S.Notify:
			default:
			}
			var nc <-chan time.Time
			if next != nil {
				nc = next.C
			}
			left := w.Horizon - now.Sub(w.T0)
			if left <= 0 {
				// a harness task stuck inside corebgp (an API call that never returned;
				// Serve is allowed to block) is a wedge, anything else a scenario bug
				for _, t := range w.S.AliveTasks() {
					if !t.Lib && t.State() == simrt.StBlocked && strings.Contains(t.Site, ".go:") && t.Label != "api:Serve" {
						w.Violate(w.Prop+"/api-call-never-returned/"+siteFile(t.Site), "task %s (%s) has been blocked inside corebgp at %s until the end of simulated time; alive: %s", t.ID, t.Label, t.Site, w.aliveSummary())
						return
					}
				}
				w.HarnessError("horizon reached (%v) with the scenario still running; alive: %s", w.Horizon, w.aliveSummary())
				return
			}
			horizon := time.NewTimer(left)
			select {
			case <-w.S.Notify:
			case <-nc:
			case <-horizon.C:
			}
			horizon.Stop()
			if next != nil {
				next.Stop()
			}
			continue
		}
		// order options so that index 0 is the boring default
		k := 0
		if w.last != nil {
			for i, t := range opts {
				if t == w.last {
					opts[0], opts[i] = opts[i], opts[0]
					if i > 1 {
						// keep the rest sorted by id
						rest := opts[1:]
						sort.Slice(rest, func(a, b int) bool { return rest[a].ID < rest[b].ID })
					}
					break
				}
			}
		}
		if w.strategy == 2 {
			for _, t := range opts {
				if _, ok := w.prio[t]; !ok {
					w.prio[t] = 1 + w.Draw(1<<16, "pct-prio")
				}
			}
			for i, t := range opts {
				if w.prio[t] > w.prio[opts[k]] || (w.prio[t] == w.prio[opts[k]] && t.ID < opts[k].ID) {
					k = i
				}
			}
			for _, pt := range w.pctPoints {
				if pt == w.S.Steps {
					w.pctLow--
					w.prio[opts[k]] = w.pctLow
				}
			}
		} else if len(opts) > 1 {
			if w.strategy == 0 {
				if w.Draw(w.preemptP, "preempt") == 1 {
					k = w.Draw(len(opts), "pick")
				}
			} else {
				k = w.Draw(len(opts), "pick")
			}
		}
		t := opts[k]
		if w.Stalls && !w.NoStall && t.Tag != "quiesce" && w.Draw(400, "stall") == 1 {
			// stall fault: t stays parked while the clock moves (a starved goroutine / GC pause)
			d := time.Duration(w.Range(1, 4000, "stallms")) * time.Millisecond
			until := w.deadlineAfter(d)
			if w.stalled == nil {
				w.stalled = map[*simrt.Task]time.Time{}
			}
			w.stalled[t] = until
			w.Fault("stall")
			continue
		}
		w.last = t
		w.mu.Lock()
		w.seq++
		w.hash = fnvAdd(w.hash, t.ID)
		w.hash = fnvAdd(w.hash, t.Site)
		if w.keepLog {
			w.Log = append(w.Log, fmt.Sprintf("%6d %12.6f run %s @%s", w.seq, time.Since(w.T0).Seconds(), t.ID, t.Site))
		}
		w.mu.Unlock()
		w.S.Release(t)
	}
}

func (w *World) livelock() {
	w.Violate(w.Prop+"/livelock/zero-time", "no virtual-time progress for %d scheduler steps; alive: %s", w.S.Steps-w.lastAdvanceStep, w.aliveSummary())
}

func (w *World) aliveSummary() string {
	var sb strings.Builder
	for i, t := range w.S.AliveTasks() {
		if i > 0 {
			sb.WriteString(", ")
		}
		fmt.Fprintf(&sb, "%s@%s", t.ID, t.Site)
		if i > 30 {
			sb.WriteString(", ...")
			break
		}
	}
	return sb.String()
}

// LibTasksAlive lists live tasks created by corebgp `go` statements.
func (w *World) LibTasksAlive() []*simrt.Task {
	var out []*simrt.Task
	for _, t := range w.S.AliveTasks() {
		if t.Lib && !t.TimerWait.Load() {
			out = append(out, t)
		}
	}
	return out
}

// RunResult is what one run reports to the worker.
type RunResult struct {
	Hash       uint64
	RelHash    uint64
	NonTrivial bool
	Steps      int
	SimTime    time.Duration
	Viol       *Violation
	HErr       string
	Probes     map[string]int
	Faults     map[string]int
	States     map[string]struct{}
	Trans      map[string]struct{}
	Budget     bool
	Log        []string
	Sample     map[string]any
	TapeN      []uint32
	TapeV      []uint32
	Diverged   bool
}

func siteFile(site string) string {
	if i := strings.Index(site, ":"); i > 0 {
		return site[:i]
	}
	return site
}

// SlowLogger installs a corebgp Logger (user code the peer manager calls on
// every transition, error and damping decision) that sometimes yields and
// sometimes blocks for up to maxMS of virtual time: the peer manager is then
// busy while its FSMs and the server keep running. LogSlept accumulates the
// time spent blocking so that upper-bound timing oracles can allow for it.
// RunOne removes the logger after the run.
func (w *World) SlowLogger(maxMS int) {
	w.LogMax = time.Duration(maxMS) * time.Millisecond
	corebgp.SetLogger(func(v ...interface{}) {
		w.mu.Lock()
		done := w.done
		w.mu.Unlock()
		if done || simrt.Active() == nil {
			return
		}
		_ = fmt.Sprint(v...)
		w.LogLines++
		switch w.Draw(5, "logger") {
		case 3:
			w.Yield("logger")
		case 4:
			d := time.Duration(w.Range(1, maxMS, "loggerms")) * time.Millisecond
			w.Fault("slow-logger")
			w.LogSlept += d
			w.inLogger++
			w.Sleep(d)
			w.inLogger--
		}
	})
}
